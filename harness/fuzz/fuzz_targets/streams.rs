#![no_main]
use libfuzzer_sys::fuzz_target;
// C01: byte streams for the ClientHello reader, HTTP/2 extractor, HTTP parsers (first bytes choose the chunking)
fuzz_target!(|data: &[u8]| {
    vh::props::c01::fuzz_stream(data);
});
