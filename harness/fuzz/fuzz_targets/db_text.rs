#![no_main]
use libfuzzer_sys::fuzz_target;
fuzz_target!(|data: &[u8]| {
    if let Ok(s) = std::str::from_utf8(data) {
        vh::props::c01::fuzz_text(s);
    }
});
