#![no_main]
use libfuzzer_sys::fuzz_target;
// C17 differential: incremental extractor vs one-shot on the bytes received so far
fuzz_target!(|data: &[u8]| {
    vh::props::c17::fuzz_chunks(data);
});
