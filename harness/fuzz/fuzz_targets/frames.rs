#![no_main]
use libfuzzer_sys::fuzz_target;
// C01: one frame through every frame entry point on fresh instances, then the probe trace
fuzz_target!(|data: &[u8]| {
    vh::props::c01::fuzz_frame(data);
});
