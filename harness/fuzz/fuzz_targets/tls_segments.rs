#![no_main]
use libfuzzer_sys::fuzz_target;
// C08 differential: (record bytes, chunking) -> segmented reader vs one-shot parse
fuzz_target!(|data: &[u8]| {
    vh::props::c08::fuzz_segments(data);
});
