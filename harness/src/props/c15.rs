//! C15 — filtering commutes with analysis: filters remove packets, never change results.
use crate::drive;
use crate::engine::{hex, idx, truncate, Ctx, Fail, Stats};
use crate::gen::frames::{link_wrap, Link};
use crate::gen::trace::{self, Packet, TraceCase};
use crate::props::c14::{self, FilterSpec, IpSpec, PortCall, PortSpec, Side, SubnetSpec};
use huginn_net_db::Database;
use proptest::prelude::*;
use serde::{Deserialize, Serialize};
use serde_json::json;
use std::net::IpAddr;
use std::sync::{mpsc, Arc, OnceLock};

pub fn arc_db() -> Arc<Database> {
    static DB: OnceLock<Arc<Database>> = OnceLock::new();
    DB.get_or_init(|| Arc::new(Database::load_default().expect("bundled database"))).clone()
}

#[derive(Clone, Debug, Serialize, Deserialize, Hash)]
pub enum Mal {
    /// rewrite the IHL nibble of an IPv4 packet of the trace
    Ihl(u16, u8),
    /// truncate a packet of the trace to n bytes
    Truncate(u16, u16),
    /// re-frame a packet of the trace as loopback (`1e 00 00 00`) / raw IP
    Reframe(u16, bool),
    /// wrong ethertype
    Ethertype(u16, u16),
    /// IPv6 next-header rewritten
    NextHeader(u16, u8),
    /// version nibble of an Ethernet-framed packet rewritten (the EtherType stays): decoder and filter go by the EtherType
    Version(u16, u8),
}

#[derive(Clone, Debug, Serialize, Deserialize, Hash)]
pub struct FiltCase {
    pub trace: TraceCase,
    pub mal: Vec<Mal>,
    /// filter construction selectors (resolved against the trace)
    pub deny: bool,
    pub port_sel: Option<(u16, u8, bool)>,
    pub ip_sel: Option<(u16, u8)>,
    pub net_sel: Option<(u16, u8, u8)>,
}

fn side(k: u8) -> Side {
    [Side::Both, Side::Src, Side::Dst, Side::Both][(k % 4) as usize]
}

pub fn filter_of(c: &FiltCase) -> FilterSpec {
    let conns = &c.trace.conns;
    let addr = |i: u16, client: bool| -> IpAddr {
        let x = &conns[idx(i, conns.len())];
        let (a, b) = x.ips();
        let picked = if client { a.src() } else { b.src() };
        // one selector in four lists the address in its other family's clothing instead: the IPv4-mapped IPv6 form of an IPv4
        // endpoint, the embedded IPv4 address of an IPv4-mapped endpoint. Neither is the endpoint the analyzer reports, so neither matches
        if i % 4 == 3 {
            match picked {
                IpAddr::V4(v) => IpAddr::V6(v.to_ipv6_mapped()),
                IpAddr::V6(v) => match v.octets() {
                    [0, 0, 0, 0, 0, 0, 0, 0, 0, 0, 0xff, 0xff, a, b, c, d] => IpAddr::V4(std::net::Ipv4Addr::new(a, b, c, d)),
                    _ => IpAddr::V6(v),
                },
            }
        } else {
            picked
        }
    };
    let port = c.port_sel.map(|(s, k, any)| {
        let x = &conns[idx(s, conns.len())];
        let calls = match k % 6 {
            0 => vec![PortCall::Dst(x.s_port)],
            1 => vec![PortCall::Src(x.c_port)],
            2 => vec![PortCall::DstRange(x.s_port, x.s_port.saturating_add(1))],
            3 => vec![PortCall::SrcRange(0, 1025), PortCall::Dst(x.c_port)],
            4 => vec![PortCall::DstList(vec![x.s_port, 443]), PortCall::Src(x.c_port)],
            _ => vec![PortCall::Dst(x.c_port)],
        };
        PortSpec { calls, any }
    });
    let ip = c.ip_sel.map(|(s, k)| IpSpec { addrs: vec![addr(s, k % 2 == 0)], side: side(k / 2) });
    let subnet = c.net_sel.map(|(s, k, p)| {
        let a = addr(s, k % 2 == 0);
        let max = if a.is_ipv4() { 33 } else { 129 };
        SubnetSpec { nets: vec![(a, p % max)], side: side(k / 2) }
    });
    FilterSpec { deny: c.deny, port, ip, subnet }
}

pub fn frames_of(c: &FiltCase) -> Vec<Packet> {
    let mut pk = c.trace.interleaved();
    let mut extra: Vec<(usize, Packet)> = vec![];
    for m in &c.mal {
        if pk.is_empty() {
            break;
        }
        let (sel, f): (u16, Box<dyn Fn(&Packet) -> Option<Vec<u8>>>) = match m.clone() {
            Mal::Ihl(s, ihl) => (
                s,
                Box::new(move |p: &Packet| {
                    let mut f = p.frame.clone();
                    let off = if c.trace.link == Link::Ether { 14 } else { 0 };
                    if f.len() > off && f[off] >> 4 == 4 {
                        f[off] = 0x40 | (ihl & 0x0f);
                        Some(f)
                    } else {
                        None
                    }
                }),
            ),
            Mal::Truncate(s, n) => (s, Box::new(move |p: &Packet| Some(p.frame[..(n as usize).min(p.frame.len())].to_vec()))),
            Mal::Reframe(s, null) => (
                s,
                Box::new(move |p: &Packet| {
                    let off = if c.trace.link == Link::Ether { 14 } else { 0 };
                    if p.frame.len() <= off {
                        return None;
                    }
                    let ipb = &p.frame[off..];
                    Some(link_wrap(if null { Link::Null } else { Link::Raw }, ipb[0] >> 4 == 4, ipb))
                }),
            ),
            Mal::Ethertype(s, t) => (
                s,
                Box::new(move |p: &Packet| {
                    let mut f = p.frame.clone();
                    if c.trace.link == Link::Ether && f.len() > 14 {
                        f[12] = (t >> 8) as u8;
                        f[13] = t as u8;
                        Some(f)
                    } else {
                        None
                    }
                }),
            ),
            Mal::Version(s, v) => (
                s,
                Box::new(move |p: &Packet| {
                    let mut f = p.frame.clone();
                    if c.trace.link == Link::Ether && f.len() > 14 {
                        f[14] = (f[14] & 0x0f) | (v << 4);
                        Some(f)
                    } else {
                        None
                    }
                }),
            ),
            Mal::NextHeader(s, nh) => (
                s,
                Box::new(move |p: &Packet| {
                    let mut f = p.frame.clone();
                    let off = if c.trace.link == Link::Ether { 14 } else { 0 };
                    if f.len() > off + 7 && f[off] >> 4 == 6 {
                        f[off + 6] = nh;
                        Some(f)
                    } else {
                        None
                    }
                }),
            ),
        };
        let i = idx(sel, pk.len());
        if let Some(fr) = f(&pk[i]) {
            // the malformed copy replaces nothing: it is an additional frame right after the original
            extra.push((i + 1, Packet { conn: usize::MAX, from_client: pk[i].from_client, frame: fr, at: pk[i].at, tsval: None, payload_len: 0 }));
        }
    }
    extra.sort_by_key(|(i, _)| std::cmp::Reverse(*i));
    for (i, p) in extra {
        pk.insert(i.min(pk.len()), p);
    }
    pk
}

/// endpoints as the analyzer's own decoder reports them (None = undecodable => the filter cannot judge it)
pub fn decoded_endpoints(f: &[u8]) -> Option<(IpAddr, IpAddr, u16, u16)> {
    use huginn_net_tcp::packet_parser::{parse_packet, IpPacket};
    use pnet::packet::tcp::TcpPacket;
    use pnet::packet::Packet as _;
    match parse_packet(f) {
        IpPacket::Ipv4(ip) => {
            if ip.get_next_level_protocol() != pnet::packet::ip::IpNextHeaderProtocols::Tcp {
                return None;
            }
            let t = TcpPacket::new(ip.payload())?;
            Some((IpAddr::V4(ip.get_source()), IpAddr::V4(ip.get_destination()), t.get_source(), t.get_destination()))
        }
        IpPacket::Ipv6(ip) => {
            if ip.get_next_header() != pnet::packet::ip::IpNextHeaderProtocols::Tcp {
                return None;
            }
            let t = TcpPacket::new(ip.payload())?;
            Some((IpAddr::V6(ip.get_source()), IpAddr::V6(ip.get_destination()), t.get_source(), t.get_destination()))
        }
        IpPacket::None => None,
    }
}

#[derive(Clone, Copy, Debug, PartialEq)]
pub enum Kind {
    Tcp,
    Http,
    Tls,
    Unified,
}

/// run an analyzer through its public analyze_pcap entry point; rendered non-empty results in order
pub fn run_pcap(k: Kind, frames: &[&[u8]], filter: Option<&FilterSpec>) -> Result<Vec<String>, String> {
    let path = drive::scratch_file("c15");
    drive::write_pcap(&path, frames);
    let p = path.to_string_lossy().to_string();
    let out = match k {
        Kind::Tcp => {
            let (tx, rx) = mpsc::channel();
            let mut a = huginn_net_tcp::HuginnNetTcp::new(Some(arc_db()), 1000).map_err(|e| e.to_string())?;
            if let Some(f) = filter {
                a = a.with_filter(c14::tcp_cfg(f));
            }
            a.analyze_pcap(&p, tx, None).map_err(|e| e.to_string())?;
            rx.try_iter().flat_map(|r| drive::tcp_result_strs(&r)).collect()
        }
        Kind::Http => {
            let (tx, rx) = mpsc::channel();
            let mut a = huginn_net_http::HuginnNetHttp::new(Some(arc_db()), 1000).map_err(|e| e.to_string())?;
            if let Some(f) = filter {
                a = a.with_filter(c14::http_cfg(f));
            }
            a.analyze_pcap(&p, tx, None).map_err(|e| e.to_string())?;
            rx.try_iter().flat_map(|r| drive::http_result_strs(&r)).collect()
        }
        Kind::Tls => {
            let (tx, rx) = mpsc::channel();
            let mut a = huginn_net_tls::HuginnNetTls::new(1000);
            if let Some(f) = filter {
                a = a.with_filter(c14::tls_cfg(f));
            }
            a.analyze_pcap(&p, tx, None).map_err(|e| e.to_string())?;
            rx.try_iter().map(|r| drive::tls_out_str(&r)).collect()
        }
        Kind::Unified => {
            let (tx, rx) = mpsc::channel();
            let db = drive::default_db();
            let mut a = huginn_net::HuginnNet::new(Some(db), 1000, None).map_err(|e| e.to_string())?;
            if let Some(f) = filter {
                a = a.with_filter(c14::tcp_cfg(f));
            }
            a.analyze_pcap(&p, tx, None).map_err(|e| e.to_string())?;
            rx.try_iter()
                .flat_map(|r| {
                    let mut v = drive::unified_tcp_strs(&r);
                    v.extend(drive::unified_http_strs(&r));
                    if let Some(t) = &r.tls_client {
                        v.push(drive::tls_out_str(t));
                    }
                    v
                })
                .collect()
        }
    };
    let _ = std::fs::remove_file(&path);
    Ok(out)
}

pub fn check(c: &FiltCase, st: &mut Stats) -> Result<(), Fail> {
    let spec = filter_of(c);
    let pk = frames_of(c);
    drive::set_clock_table(&pk);
    let all: Vec<&[u8]> = pk.iter().map(|p| p.frame.as_slice()).collect();
    let admitted: Vec<bool> = pk
        .iter()
        .map(|p| match decoded_endpoints(&p.frame) {
            Some((s, d, sp, dp)) => c14::reference(&spec, &s, &d, sp, dp),
            None => true,
        })
        .collect();
    let sub: Vec<&[u8]> = pk.iter().zip(&admitted).filter(|(_, a)| **a).map(|(p, _)| p.frame.as_slice()).collect();
    let n_adm = sub.len();
    if n_adm > 0 && n_adm < pk.len() {
        st.nontrivial(c);
    }
    st.class(if n_adm == 0 { "filter-admits:none" } else if n_adm == pk.len() { "filter-admits:all" } else { "filter-admits:proper-subset" });
    for k in [Kind::Tcp, Kind::Http, Kind::Tls, Kind::Unified] {
        let filtered = run_pcap(k, &all, Some(&spec)).map_err(|e| fail!(format!("{:?}:analyze_pcap-error", k), "{e}"))?;
        let reference = run_pcap(k, &sub, None).map_err(|e| fail!(format!("{:?}:analyze_pcap-error", k), "{e}"))?;
        if filtered != reference {
            // first difference
            let i = filtered.iter().zip(reference.iter()).position(|(a, b)| a != b).unwrap_or(filtered.len().min(reference.len()));
            let what = if filtered.len() > reference.len() && reference.iter().all(|r| filtered.contains(r)) {
                "result-for-rejected-endpoints-or-extra-result"
            } else if filtered.len() < reference.len() {
                "admitted-traffic-lost-or-changed"
            } else {
                "admitted-traffic-fingerprinted-differently"
            };
            // which frame class is involved (for a stable failure key)
            let culprit = pk.iter().zip(&admitted).find(|(p, a)| !**a && p.conn == usize::MAX).map(|(p, _)| hex(&p.frame[..p.frame.len().min(48)]));
            return Err(fail!(
                format!("{:?}:{what}", k),
                "filter {:?}\n{} results with filter, {} without on the sub-trace ({} of {} frames admitted); first difference at #{i}\nwith filter: {}\nreference:   {}\nrejected malformed frame (if any): {:?}",
                spec,
                filtered.len(),
                reference.len(),
                n_adm,
                pk.len(),
                truncate(filtered.get(i).map(|s| s.as_str()).unwrap_or("-"), 400),
                truncate(reference.get(i).map(|s| s.as_str()).unwrap_or("-"), 400),
                culprit
            ));
        }
    }
    drive::clear_clock_table();
    Ok(())
}

pub fn mal() -> impl Strategy<Value = Mal> {
    prop_oneof![
        3 => (any::<u16>(), 0u8..16).prop_map(|(s, i)| Mal::Ihl(s, i)),
        2 => (any::<u16>(), prop_oneof![0u16..80, 0u16..1600]).prop_map(|(s, n)| Mal::Truncate(s, n)),
        3 => (any::<u16>(), any::<bool>()).prop_map(|(s, n)| Mal::Reframe(s, n)),
        1 => (any::<u16>(), prop_oneof![Just(0x0806u16), Just(0x86ddu16), Just(0x0800u16), any::<u16>()]).prop_map(|(s, t)| Mal::Ethertype(s, t)),
        1 => (any::<u16>(), prop_oneof![Just(0u8), Just(17u8), Just(44u8), Just(6u8)]).prop_map(|(s, n)| Mal::NextHeader(s, n)),
        2 => (any::<u16>(), prop_oneof![Just(4u8), Just(5u8), Just(6u8), Just(0u8), Just(15u8)]).prop_map(|(s, v)| Mal::Version(s, v)),
    ]
}

pub fn filt_case() -> impl Strategy<Value = FiltCase> {
    (
        trace::trace_case(4, true),
        proptest::collection::vec(mal(), 0..4),
        any::<bool>(),
        proptest::option::weighted(0.7, (any::<u16>(), any::<u8>(), proptest::bool::weighted(0.2))),
        proptest::option::weighted(0.4, (any::<u16>(), any::<u8>())),
        proptest::option::weighted(0.3, (any::<u16>(), any::<u8>(), any::<u8>())),
    )
        .prop_map(|(trace, mal, deny, port_sel, ip_sel, net_sel)| FiltCase { trace, mal, deny, port_sel, ip_sel, net_sel })
}

pub fn run(ctx: &Ctx) {
    ctx.assume("sequential analyzers are driven through analyze_pcap on pcap files the harness writes below /verif/harness/target/scratch; arrival times come from the per-thread TSval clock table of hook H1");
    ctx.assume("the sub-trace keeps every frame the analyzer's own decoder cannot attribute to TCP endpoints (fail-open); all-empty results are ignored on both sides");
    let n = ctx.tier.pick(20_000, 300_000);
    ctx.run_prop(
        "filtered-vs-subtrace",
        "proptest traces of 1..4 interleaved connections (Ethernet / raw IP) + 0..3 malformed copies of their frames (IHL 0..15, truncation, loopback / raw re-framing, wrong ethertype, IPv6 next-header) x filters built from the trace's own ports and addresses (allow/deny x port / address / subnet, side selection, any-port) through the analyzers' public analyze_pcap; oracle: the same analyzer without a filter on the sub-trace the documented rule admits (endpoints decoded with the analyzer's own parser), for TCP, HTTP, TLS and unified; non-trivial: the filter admits a proper non-empty subset",
        n,
        filt_case,
        |c: &FiltCase, st: &mut Stats| {
            st.sample(|| json!({"filter": format!("{:?}", filter_of(c)), "frames": frames_of(c).len(), "malformed": format!("{:?}", c.mal)}));
            check(c, st)
        },
    );
}

/// the parallel path: the pools apply the same filter inside their workers
pub fn check_pool(c: &FiltCase, kind_sel: u8, workers: usize, st: &mut Stats) -> Result<(), Fail> {
    check_pool_with(c, kind_sel, workers, st, false)
}
/// `api`: parallel mode as a user sets it up (with_config + with_filter + init_pool + analyze_pcap) instead of WorkerPool::new + dispatch
pub fn check_pool_with(c: &FiltCase, kind_sel: u8, workers: usize, st: &mut Stats, api: bool) -> Result<(), Fail> {
    use crate::pool::{run_pool, PoolCfg, PoolKind};
    // the dispatch hashers decode Ethernet and raw IP framing only (C18's quantifier): loopback re-framed copies are outside the pools' domain
    let mut c = c.clone();
    // ... and frames whose version nibble contradicts their EtherType are not frames of a connection for the hashers either
    c.mal.retain(|m| !matches!(m, Mal::Reframe(_, true) | Mal::Version(..)));
    let c = &c;
    let spec = filter_of(c);
    let pk = frames_of(c);
    let (pkind, skind) = [(PoolKind::Tcp, Kind::Tcp), (PoolKind::Http, Kind::Http), (PoolKind::Tls, Kind::Tls)][(kind_sel % 3) as usize];
    let frames: Vec<Vec<u8>> = pk.iter().map(|p| p.frame.clone()).collect();
    let mut clock = std::collections::HashMap::new();
    for p in &pk {
        if let Some(v) = p.tsval {
            clock.insert(v, p.at);
        }
    }
    // sequential reference: the unfiltered analyzer on the admitted sub-trace
    drive::set_clock_table(&pk);
    let sub: Vec<&[u8]> = pk
        .iter()
        .filter(|p| match decoded_endpoints(&p.frame) {
            Some((s, d, sp, dp)) => c14::reference(&spec, &s, &d, sp, dp),
            None => true,
        })
        .map(|p| p.frame.as_slice())
        .collect();
    let n_adm = sub.len();
    let mut reference = run_pcap(skind, &sub, None).map_err(|e| fail!("pool:reference-error", "{e}"))?;
    drive::clear_clock_table();
    let cfg = PoolCfg { workers, queue: frames.len() + 8, batch: 16, timeout_ms: 3, dispatchers: 1, perturb: None, max_sleep_us: 0, max_conn: 1000 };
    let run = if api {
        let _guard = crate::pool::POOL_LOCK.lock().unwrap_or_else(|e| e.into_inner());
        huginn_net_tcp::verif_hooks::set_global_clock_table(Some(clock));
        let before = crate::engine::WORKER_PANICS.load(std::sync::atomic::Ordering::SeqCst);
        let got = crate::props::c10::api_parallel_filtered(pkind, &frames, Some(&spec), 1000, workers, frames.len() + 8, 16, 3);
        huginn_net_tcp::verif_hooks::set_global_clock_table(None);
        let mut r = crate::pool::PoolRun::default();
        if crate::engine::WORKER_PANICS.load(std::sync::atomic::Ordering::SeqCst) != before {
            r.worker_panic = Some(crate::engine::LAST_WORKER_PANIC.lock().ok().and_then(|g| g.clone()).unwrap_or_else(|| "worker panic".into()));
        }
        match got.map_err(|e| fail!("parallel-mode:setup", "{e}"))? {
            Some(g) => r.results = g,
            None => r.drain_timeout = true,
        }
        r
    } else {
        run_pool(pkind, &frames, &cfg, Some(&spec), Some(clock)).map_err(|e| fail!("pool:new", "{e}"))?
    };
    if let Some(p) = &run.worker_panic {
        return Err(Fail::new(format!("pool:worker-{}", crate::engine::panic_key(p)), p.clone()));
    }
    if run.drain_timeout {
        st.discards += 1;
        return Ok(());
    }
    if n_adm > 0 && n_adm < pk.len() {
        st.nontrivial(&(c, kind_sel, workers));
    }
    // the TCP pool joins the parts of one packet's result with " || "; split for comparison with the sequential rendering
    let mut got: Vec<String> = run.results.iter().flat_map(|(_, s)| s.split(" || ").map(|x| x.to_string()).collect::<Vec<_>>()).collect();
    got.sort();
    reference.sort();
    if got != reference {
        let extra: Vec<&String> = got.iter().filter(|g| !reference.contains(g)).collect();
        let missing: Vec<&String> = reference.iter().filter(|g| !got.contains(g)).collect();
        return Err(fail!(
            format!("{:?}-{}:{}", pkind, if api { "parallel-mode" } else { "pool" }, if !extra.is_empty() { "result-for-rejected-endpoints-or-extra-result" } else { "admitted-traffic-lost" }),
            "filter {:?}: pool {} results, reference {} ({} of {} frames admitted)
extra {}
missing {}",
            spec,
            got.len(),
            reference.len(),
            n_adm,
            pk.len(),
            truncate(&format!("{:?}", extra.first()), 300),
            truncate(&format!("{:?}", missing.first()), 300)
        ));
    }
    Ok(())
}

pub fn run_api(ctx: &Ctx) {
    ctx.shrink_iters.store(15, std::sync::atomic::Ordering::Relaxed);
    let n = ctx.tier.pick(1_500, 30_000);
    ctx.run_prop(
        "parallel-mode-api-filtered-vs-subtrace",
        "the same traces, malformed frames and filters through parallel mode as a user sets it up: with_config(..).with_filter(filter) + init_pool + analyze_pcap of the TCP / HTTP / TLS analyzers (1..6 workers); oracle: the unfiltered sequential analyzer on the admitted sub-trace, results compared as multisets; non-trivial: the filter admits a proper non-empty subset",
        n,
        || (filt_case(), 0u8..3, 1usize..7),
        |(c, k, w): &(FiltCase, u8, usize), st: &mut Stats| {
            st.sample(|| json!({"filter": format!("{:?}", filter_of(c)), "frames": frames_of(c).len(), "analyzer": k % 3, "workers": w}));
            check_pool_with(c, *k, *w, st, true)
        },
    );
    ctx.shrink_iters.store(1200, std::sync::atomic::Ordering::Relaxed);
}

pub fn run_pools(ctx: &Ctx) {
    ctx.shrink_iters.store(15, std::sync::atomic::Ordering::Relaxed);
    let n = ctx.tier.pick(2_000, 40_000);
    ctx.run_prop(
        "pool-filtered-vs-subtrace",
        "the same traces, malformed frames and filters through the TCP / HTTP / TLS worker pools (1..6 workers) with the filter installed; oracle: the unfiltered sequential analyzer on the admitted sub-trace, results compared as multisets; non-trivial: the filter admits a proper non-empty subset",
        n,
        || (filt_case(), 0u8..3, 1usize..7),
        |(c, k, w): &(FiltCase, u8, usize), st: &mut Stats| {
            st.sample(|| json!({"filter": format!("{:?}", filter_of(c)), "frames": frames_of(c).len(), "pool": k % 3, "workers": w}));
            check_pool(c, *k, *w, st)
        },
    );
}

pub fn replay(_ctx: &Ctx, _sub: &str, input: &serde_json::Value) -> Result<(), Fail> {
    if _sub == "pool-filtered-vs-subtrace" || _sub == "parallel-mode-api-filtered-vs-subtrace" {
        let (c, k, w): (FiltCase, u8, usize) = serde_json::from_value(input["value"].clone()).map_err(|e| fail!("bad-replay", "{e}"))?;
        let mut st = Stats::new();
        return check_pool_with(&c, k, w, &mut st, _sub != "pool-filtered-vs-subtrace");
    }
    let c: FiltCase = serde_json::from_value(input["value"].clone()).map_err(|e| fail!("bad-replay", "{e}"))?;
    let mut st = Stats::new();
    check(&c, &mut st)
}
