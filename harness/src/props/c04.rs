//! C04 — JA4 fingerprints equal the FoxIO specification for every ClientHello.
use crate::engine::{hex, Ctx, Fail, Stats};
use crate::gen::frames::{frame, Ip, Ip4, Ip6, Link, Tcp, ACK, PSH};
use crate::gen::tls::{self as gt, is_grease, Ext, Hello};
use crate::model::ja4::{self, Ja4Ref};
use huginn_net_tls::tls::Ja4Payload;
use proptest::prelude::*;
use serde::{Deserialize, Serialize};
use serde_json::json;

pub const K_ALPN_NONUTF8: &str = "K-C04-alpn-nonutf8";
pub const K_SNI_FLAG: &str = "K-C04-sni-flag";

/// SNI extension present but without a decodable first host name
fn sni_undecodable(h: &Hello) -> bool {
    h.exts().iter().any(|e| matches!(e, Ext::Sni(n) if n.first().map(|x| std::str::from_utf8(x).is_err()).unwrap_or(true)))
}

pub struct Observed {
    pub ja4: Ja4Payload,
    pub ja4o: Ja4Payload,
    pub version: String,
    pub sni: Option<String>,
    pub alpn: Option<String>,
    pub ciphers: Vec<u16>,
    pub extensions: Vec<u16>,
    pub sigalgs: Vec<u16>,
    pub curves: Vec<u16>,
}

pub fn observe_sig(sig: &huginn_net_tls::tls::Signature) -> Observed {
    Observed {
        ja4: sig.generate_ja4(),
        ja4o: sig.generate_ja4_original(),
        version: format!("{}", sig.version),
        sni: sig.sni.clone(),
        alpn: sig.alpn.clone(),
        ciphers: sig.cipher_suites.clone(),
        extensions: sig.extensions.clone(),
        sigalgs: sig.signature_algorithms.clone(),
        curves: sig.elliptic_curves.clone(),
    }
}
pub fn observe_client(c: &huginn_net_tls::ObservableTlsClient) -> Observed {
    Observed {
        ja4: c.ja4.clone(),
        ja4o: c.ja4_original.clone(),
        version: format!("{}", c.version),
        sni: c.sni.clone(),
        alpn: c.alpn.clone(),
        ciphers: c.cipher_suites.clone(),
        extensions: c.extensions.clone(),
        sigalgs: c.signature_algorithms.clone(),
        curves: c.elliptic_curves.clone(),
    }
}

fn sv_undefined(h: &Hello) -> bool {
    h.exts().iter().any(|e| matches!(e, Ext::SupportedVersions(vs) if !vs.iter().any(|v| !is_grease(*v))))
}

fn alpn_nonutf8(h: &Hello) -> bool {
    matches!(ja4::first_alpn(h), Some(Some(v)) if std::str::from_utf8(&v).is_err())
}

fn without_grease(v: &[u16]) -> Vec<u16> {
    v.iter().copied().filter(|x| !is_grease(*x)).collect()
}

/// Compare an observation with the reference for hello `h`.
pub fn judge(ctx: &Ctx, h: &Hello, o: &Observed, st: &mut Stats, who: &str) -> Result<(), Fail> {
    let mut r: Ja4Ref = ja4::reference(h);
    let mut skip_a = false;
    if sni_undecodable(h) && o.sni.is_none() && o.ja4.ja4_a.len() > 3 && &o.ja4.ja4_a[3..4] == "i" && ctx.is_known(K_SNI_FLAG) {
        // known finding: flag derived from a decodable first host name; everything else is still compared
        st.known(K_SNI_FLAG);
        for a in r.a_variants.iter_mut() {
            a.replace_range(3..4, "i");
        }
    }
    if sv_undefined(h) {
        st.class("supported_versions without a non-GREASE entry (version not compared)");
        skip_a = true;
    }
    let nonutf8 = alpn_nonutf8(h);
    let check = |name: &str, got: &str, acc: &[String]| -> Result<(), Fail> {
        if acc.iter().any(|a| a == got) {
            Ok(())
        } else {
            Err(fail!(format!("{who}:{name}"), "expected one of {:?} got {:?} | record {}", acc, got, hex(&h.record())))
        }
    };
    // b / c parts
    check("ja4_b", &o.ja4.ja4_b, &[r.b_sorted.clone()])?;
    check("ja4_o_b", &o.ja4o.ja4_b, &[r.b_orig.clone()])?;
    check("ja4_c", &o.ja4.ja4_c, &[r.c_sorted.clone()])?;
    check("ja4_o_c", &o.ja4o.ja4_c, &[r.c_orig.clone()])?;
    if !skip_a {
        let mut a_ok = r.a_variants.iter().any(|a| *a == o.ja4.ja4_a);
        if !a_ok && nonutf8 && ctx.is_known(K_ALPN_NONUTF8) {
            // known: a first ALPN value that is not UTF-8 is dropped -> "00"
            let a00: Vec<String> = r.a_variants.iter().map(|a| format!("{}00", &a[..a.len() - 2])).collect();
            if a00.iter().any(|a| *a == o.ja4.ja4_a) && o.alpn.is_none() {
                st.known(K_ALPN_NONUTF8);
                a_ok = true;
                skip_a = true;
            }
        }
        if !a_ok {
            // name the sub-field that differs, for a stable failure key
            let exp = &r.a_variants[0];
            let got = &o.ja4.ja4_a;
            let part = if got.len() != exp.len() {
                "length"
            } else if got[..3] != exp[..3] {
                "version"
            } else if got[3..4] != exp[3..4] {
                "sni-flag"
            } else if got[4..6] != exp[4..6] {
                "cipher-count"
            } else if got[6..8] != exp[6..8] {
                "ext-count"
            } else {
                "alpn"
            };
            return Err(fail!(format!("{who}:ja4_a:{part}"), "expected one of {:?} got {:?} | record {}", r.a_variants, got, hex(&h.record())));
        }
        if o.ja4o.ja4_a != o.ja4.ja4_a {
            return Err(fail!(format!("{who}:ja4_o_a"), "a-part differs between sorted {:?} and original {:?}", o.ja4.ja4_a, o.ja4o.ja4_a));
        }
    }
    if !skip_a {
        check("ja4-full", o.ja4.full.value(), &r.full(false))?;
        check("ja4_o-full", o.ja4o.full.value(), &r.full(true))?;
        check("ja4_r", o.ja4.raw.value(), &r.raw(false))?;
        check("ja4_ro", o.ja4o.raw.value(), &r.raw(true))?;
        if o.version != r.version {
            return Err(fail!(format!("{who}:version-field"), "expected {} got {}", r.version, o.version));
        }
    } else {
        // hashes of b and c must still be right
        let f = o.ja4.full.value();
        // the a-part may itself contain '_' (ALPN characters): split from the right
        let parts: Vec<&str> = f.rsplitn(3, '_').collect();
        let c_hash = if r.c_sorted.is_empty() { "000000000000".to_string() } else { ja4::hash12(&r.c_sorted) };
        if parts.len() != 3 || parts[1] != ja4::hash12(&r.b_sorted) || parts[0] != c_hash {
            return Err(fail!(format!("{who}:ja4-full-hashes"), "got {f}"));
        }
    }
    // separately reported fields follow the bytes
    let wire_c = h.ciphers.clone();
    if o.ciphers != wire_c && o.ciphers != without_grease(&wire_c) {
        return Err(fail!(format!("{who}:cipher_suites-field"), "wire {:04x?} got {:04x?}", wire_c, o.ciphers));
    }
    let wire_e: Vec<u16> = h.exts().iter().map(|e| e.typ()).collect();
    if o.extensions != wire_e && o.extensions != without_grease(&wire_e) {
        return Err(fail!(format!("{who}:extensions-field"), "wire {:04x?} got {:04x?}", wire_e, o.extensions));
    }
    let wire_s: Vec<u16> = h.exts().iter().find_map(|e| if let Ext::SigAlgs(v) = e { Some(v.clone()) } else { None }).unwrap_or_default();
    if o.sigalgs != wire_s && o.sigalgs != without_grease(&wire_s) {
        return Err(fail!(format!("{who}:signature_algorithms-field"), "wire {:04x?} got {:04x?}", wire_s, o.sigalgs));
    }
    let wire_g: Vec<u16> = h.exts().iter().find_map(|e| if let Ext::Groups(v) = e { Some(v.clone()) } else { None }).unwrap_or_default();
    if o.curves != wire_g && o.curves != without_grease(&wire_g) {
        return Err(fail!(format!("{who}:elliptic_curves-field"), "wire {:04x?} got {:04x?}", wire_g, o.curves));
    }
    // SNI / ALPN fields: first value when it is text
    let exp_sni: Option<String> = h.exts().iter().find_map(|e| if let Ext::Sni(n) = e { Some(n.first().and_then(|x| String::from_utf8(x.clone()).ok())) } else { None }).flatten();
    if o.sni != exp_sni {
        return Err(fail!(format!("{who}:sni-field"), "expected {:?} got {:?}", exp_sni, o.sni));
    }
    let first = ja4::first_alpn(h).flatten();
    let exp_alpn: Option<String> = first.as_ref().and_then(|v| String::from_utf8(v.clone()).ok());
    let exp_lossy: Option<String> = first.as_ref().map(|v| String::from_utf8_lossy(v).into_owned());
    if o.alpn != exp_alpn && o.alpn != exp_lossy {
        return Err(fail!(format!("{who}:alpn-field"), "expected {:?} got {:?}", exp_alpn, o.alpn));
    }
    Ok(())
}

pub fn nontrivial(h: &Hello) -> bool {
    let e = h.exts();
    !e.is_empty()
        && (h.ciphers.iter().any(|c| is_grease(*c))
            || e.iter().any(|x| matches!(x, Ext::Grease(..) | Ext::SupportedVersions(_)))
            || h.ciphers.is_empty()
            || h.ciphers.len() >= 99
            || e.len() >= 99
            || h.ciphers.windows(2).any(|w| w[0] > w[1])
            || e.windows(2).any(|w| w[0].typ() > w[1].typ()))
}

pub fn classify(h: &Hello, st: &mut Stats) {
    let e = h.exts();
    if h.extensions.is_none() {
        st.class("no-extensions-block");
    }
    if e.iter().any(|x| matches!(x, Ext::SupportedVersions(_))) {
        st.class("with-supported_versions");
    }
    if e.iter().any(|x| matches!(x, Ext::Sni(_))) {
        st.class("with-sni");
    }
    if e.iter().any(|x| matches!(x, Ext::Alpn(_))) {
        st.class("with-alpn");
    }
    if h.ciphers.iter().any(|c| is_grease(*c)) || e.iter().any(|x| matches!(x, Ext::Grease(..))) {
        st.class("with-grease");
    }
    if h.ciphers.len() >= 99 || e.len() >= 99 {
        st.class("count>=99");
    }
    if h.ciphers.is_empty() {
        st.class("empty-cipher-list");
    }
    if ![0x0300u16, 0x0301, 0x0302, 0x0303, 0x0304].contains(&h.legacy_version) {
        st.class("unknown-legacy-version");
    }
}

/// one-shot API
pub fn check_hello(ctx: &Ctx, h: &Hello, st: &mut Stats, packets: bool) -> Result<(), Fail> {
    if !h.fits() {
        st.discards += 1;
        return Ok(());
    }
    let rec = h.record();
    let sig = match huginn_net_tls::tls_process::parse_tls_client_hello(&rec) {
        Ok(Some(s)) => s,
        Ok(None) => return Err(fail!("api:not-recognised", "parse_tls_client_hello -> Ok(None) | record {}", hex(&rec))),
        Err(e) => return Err(fail!("api:parse-error", "{e} | record {}", hex(&rec))),
    };
    judge(ctx, h, &observe_sig(&sig), st, "api")?;
    // the one-call API that returns the JA4 string only must tell the same (already judged) string
    let only = huginn_net_tls::tls_process::parse_tls_client_hello_ja4(&rec);
    let full = sig.generate_ja4().full.value().to_string();
    if only.as_deref() != Some(full.as_str()) {
        return Err(fail!("api:parse_tls_client_hello_ja4-differs", "expected {full} got {:?}", only));
    }
    if packets {
        // single-segment delivery through the TLS analyzer's packet path and the unified analyzer
        for v4 in [true, false] {
            let ip = if v4 { Ip::V4(Ip4::default()) } else { Ip::V6(Ip6::default()) };
            let tcp = Tcp { flags: ACK | PSH, ack: 1, payload: rec.clone(), dport: 443, ..Tcp::default() };
            if rec.len() > 65000 {
                continue;
            }
            let f = frame(Link::Ether, &ip, &tcp);
            let mut flows = ttl_cache::TtlCache::new(8);
            let out = match huginn_net_tls::packet_parser::parse_packet(&f) {
                huginn_net_tls::packet_parser::IpPacket::Ipv4(p) => huginn_net_tls::process::process_ipv4_packet(&p, &mut flows),
                huginn_net_tls::packet_parser::IpPacket::Ipv6(p) => huginn_net_tls::process::process_ipv6_packet(&p, &mut flows),
                huginn_net_tls::packet_parser::IpPacket::None => return Err(fail!("tls-packet:not-decoded", "frame not decoded")),
            };
            match out {
                Ok(Some(o)) => {
                    judge(ctx, h, &observe_client(&o.sig), st, "tls-packet")?;
                    if o.source.ip != ip.src() || o.destination.ip != ip.dst() || o.source.port != tcp.sport || o.destination.port != tcp.dport {
                        return Err(fail!("tls-packet:endpoints", "{:?} -> {:?}", o.source, o.destination));
                    }
                }
                Ok(None) => return Err(fail!("tls-packet:no-result", "single segment hello not reported | record {}", hex(&rec))),
                Err(e) => return Err(fail!("tls-packet:error", "{e}")),
            }
            let cfg = huginn_net::AnalysisConfig { http_enabled: false, tcp_enabled: false, tls_enabled: true, matcher_enabled: false };
            let mut hn = huginn_net::HuginnNet::new(None, 8, Some(cfg)).map_err(|e| fail!("unified:new", "{e}"))?;
            let r = hn.analyze_tcp(&f);
            match r.tls_client {
                Some(o) => judge(ctx, h, &observe_client(&o.sig), st, "unified")?,
                None => return Err(fail!("unified:no-result", "single segment hello not reported")),
            }
        }
    }
    Ok(())
}

#[derive(Clone, Debug, Serialize, Deserialize)]
pub struct Meta {
    pub hello: Hello,
    /// positions/values for GREASE insertion into ciphers and extensions, and permutation seeds
    pub ins_c: Vec<(u16, u16)>,
    pub ins_e: Vec<(u16, u16)>,
    pub perm: u64,
}

fn permute<T: Clone>(v: &[T], seed: u64) -> Vec<T> {
    let mut out: Vec<T> = v.to_vec();
    let mut s = crate::engine::SplitMix(seed);
    for i in (1..out.len()).rev() {
        let j = s.below(i as u64 + 1) as usize;
        out.swap(i, j);
    }
    out
}

/// metamorphic relations between a hello and its GREASE-augmented / permuted variants
pub fn check_meta(ctx: &Ctx, m: &Meta, st: &mut Stats) -> Result<(), Fail> {
    let base = &m.hello;
    if !base.fits() {
        st.discards += 1;
        return Ok(());
    }
    let get = |h: &Hello| -> Result<huginn_net_tls::tls::Signature, Fail> {
        match huginn_net_tls::tls_process::parse_tls_client_hello(&h.record()) {
            Ok(Some(s)) => Ok(s),
            other => Err(fail!("meta:parse", "{:?}", other.map(|_| ()))),
        }
    };
    let s0 = get(base)?;
    let (j0, o0) = (s0.generate_ja4(), s0.generate_ja4_original());
    // (1) insert GREASE
    let mut g = base.clone();
    for (pos, val) in &m.ins_c {
        let p = crate::engine::idx(*pos, g.ciphers.len() + 1);
        g.ciphers.insert(p, gt::GREASE[(*val % 16) as usize]);
    }
    if let Some(exts) = &mut g.extensions {
        for (pos, val) in &m.ins_e {
            let t = gt::GREASE[(*val % 16) as usize];
            if exts.iter().any(|e| e.typ() == t) {
                continue;
            }
            let p = crate::engine::idx(*pos, exts.len() + 1);
            exts.insert(p, Ext::Grease(t, vec![0]));
        }
    }
    if g.fits() && g.ciphers.len() < 32000 {
        let s1 = get(&g)?;
        let (j1, o1) = (s1.generate_ja4(), s1.generate_ja4_original());
        if j1.full != j0.full || j1.raw != j0.raw {
            return Err(fail!("meta:grease-changes-ja4", "base {} / {} with grease {} / {}", j0.full, j0.raw, j1.full, j1.raw));
        }
        if o1.full != o0.full || o1.raw != o0.raw {
            return Err(fail!("meta:grease-changes-ja4_o", "base {} with grease {}", o0.raw, o1.raw));
        }
        judge(ctx, &g, &observe_sig(&s1), st, "meta-grease")?;
    }
    // (2) permute ciphers and extensions
    let mut p = base.clone();
    p.ciphers = permute(&p.ciphers, m.perm);
    if let Some(exts) = &mut p.extensions {
        *exts = permute(exts, m.perm ^ 0x55);
    }
    let s2 = get(&p)?;
    let (j2, o2) = (s2.generate_ja4(), s2.generate_ja4_original());
    if j2.full != j0.full || j2.raw != j0.raw {
        return Err(fail!("meta:permutation-changes-ja4", "base {} permuted {}", j0.raw, j2.raw));
    }
    judge(ctx, &p, &observe_sig(&s2), st, "meta-perm")?;
    let changed = p.ciphers.iter().filter(|c| !is_grease(**c)).collect::<Vec<_>>() != base.ciphers.iter().filter(|c| !is_grease(**c)).collect::<Vec<_>>();
    if changed && o2.ja4_b == o0.ja4_b {
        return Err(fail!("meta:ja4_o-ignores-cipher-order", "base {} permuted {}", o0.ja4_b, o2.ja4_b));
    }
    // (3) permute signature algorithms: ja4_c follows
    let mut q = base.clone();
    let mut sig_changed = false;
    if let Some(exts) = &mut q.extensions {
        for e in exts.iter_mut() {
            if let Ext::SigAlgs(v) = e {
                let nv = permute(v, m.perm ^ 0x99);
                if without_grease(&nv) != without_grease(v) {
                    sig_changed = true;
                }
                *v = nv;
            }
        }
    }
    if sig_changed {
        let s3 = get(&q)?;
        let j3 = s3.generate_ja4();
        if j3.ja4_c == j0.ja4_c {
            return Err(fail!("meta:sigalg-order-ignored", "base {} permuted {}", j0.ja4_c, j3.ja4_c));
        }
        judge(ctx, &q, &observe_sig(&s3), st, "meta-sigalg")?;
    }
    Ok(())
}

pub fn run(ctx: &Ctx) {
    ctx.assume("ALPN edge cases (first value of length 1 or with non-alphanumeric first/last byte) are judged by a predicate accepting each published variant of the rule");
    ctx.assume("supported_versions lists without any non-GREASE entry: version not compared");
    ctx.assume("separately reported cipher/extension/signature-algorithm/group lists: wire order, with or without GREASE values");
    // golden sanity: the builder's output is what the parser library accepts
    let n = ctx.tier.pick(300_000, 4_000_000);
    ctx.run_prop(
        "hello-vs-spec",
        "proptest ClientHello builder (legacy versions incl. unknown, session id 0..32, 0..130 ciphers, GREASE anywhere, 0..120 extensions of 35 types incl. unknown bodies) vs JA4 reference computed from the generated structure; 1 in 8 cases also as a single-segment packet through the TLS and unified analyzers (IPv4+IPv6); non-trivial: >=1 extension and (GREASE or supported_versions or empty list or count>=99 or unsorted lists)",
        n,
        || (gt::hello(), 0u8..8),
        |(h, k): &(Hello, u8), st: &mut Stats| {
            classify(h, st);
            if nontrivial(h) {
                st.nontrivial(h);
            }
            st.sample(|| json!({"hello": format!("{:?}", h), "record": hex(&h.record())}));
            check_hello(ctx, h, st, *k == 0)
        },
    );
    let n = ctx.tier.pick(80_000, 1_000_000);
    ctx.run_prop(
        "metamorphic",
        "hello + GREASE insertion at generated positions / permutation of ciphers and extensions / permutation of signature algorithms: JA4 and JA4_r invariant, JA4_o / JA4_ro / ja4_c follow the bytes; every variant is also compared with the reference; non-trivial: every triple whose base has >=2 ciphers and >=2 extensions",
        n,
        || {
            (gt::hello(), proptest::collection::vec((any::<u16>(), any::<u16>()), 0..4), proptest::collection::vec((any::<u16>(), any::<u16>()), 0..4), any::<u64>())
                .prop_map(|(hello, ins_c, ins_e, perm)| Meta { hello, ins_c, ins_e, perm })
        },
        |m: &Meta, st: &mut Stats| {
            if m.hello.ciphers.len() >= 2 && m.hello.exts().len() >= 2 {
                st.nontrivial(&m.hello);
            }
            st.sample(|| json!({"base": format!("{:?}", m.hello), "grease_c": m.ins_c.len(), "grease_e": m.ins_e.len()}));
            check_meta(ctx, m, st)
        },
    );
}

pub fn replay(ctx: &Ctx, sub: &str, input: &serde_json::Value) -> Result<(), Fail> {
    let v = &input["value"];
    let mut st = Stats::new();
    if sub == "metamorphic" {
        let m: Meta = serde_json::from_value(v.clone()).map_err(|e| fail!("bad-replay", "{e}"))?;
        check_meta(ctx, &m, &mut st)
    } else {
        let (h, _k): (Hello, u8) = serde_json::from_value(v.clone()).map_err(|e| fail!("bad-replay", "{e}"))?;
        check_hello(ctx, &h, &mut st, true)
    }
}
