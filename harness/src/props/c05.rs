//! C05 — HTTP/1.x heads are reported faithfully and independently of the body.
use crate::engine::{hex, truncate, Ctx, Fail, Stats};
use crate::gen::frames::{frame, Ip, Ip4, Ip6, Link, Tcp, ACK, PSH, SYN};
use crate::gen::http1::{self as g, Hdr, Request, Response};
use huginn_net_http::http_process::HttpProcessors;
use huginn_net_http::observable::{ObservableHttpRequest, ObservableHttpResponse};
use proptest::prelude::*;
use serde::{Deserialize, Serialize};
use serde_json::json;

const REQ_OPTIONAL: [&str; 11] = ["Cookie", "Referer", "Origin", "Range", "If-Modified-Since", "If-None-Match", "Via", "X-Forwarded-For", "Authorization", "Proxy-Authorization", "Cache-Control"];
const RESP_OPTIONAL: [&str; 12] = ["Set-Cookie", "Last-Modified", "ETag", "Content-Length", "Content-Disposition", "Cache-Control", "Expires", "Pragma", "Location", "Refresh", "Content-Range", "Vary"];
const REQ_SKIP: [&str; 2] = ["Host", "User-Agent"];
const RESP_SKIP: [&str; 3] = ["Date", "Content-Type", "Server"];
const REQ_COMMON: [&str; 8] = ["Host", "User-Agent", "Connection", "Accept", "Accept-Encoding", "Accept-Language", "Accept-Charset", "Keep-Alive"];
const RESP_COMMON: [&str; 5] = ["Content-Type", "Connection", "Keep-Alive", "Accept-Ranges", "Date"];

/// the crate's language table, read once through two-letter probes (ISO 639-1 keys are exactly two lower-case letters);
/// any other primary subtag (three-letter codes such as `fil`, upper case, `*`) is unknown
fn lang_table() -> &'static std::collections::HashMap<String, String> {
    static T: std::sync::OnceLock<std::collections::HashMap<String, String>> = std::sync::OnceLock::new();
    T.get_or_init(|| {
        let mut m = std::collections::HashMap::new();
        for a in b'a'..=b'z' {
            for b in b'a'..=b'z' {
                let k = format!("{}{}", a as char, b as char);
                if let Some(name) = huginn_net_http::http_languages::get_highest_quality_language(k.clone()) {
                    m.insert(k, name);
                }
            }
        }
        m
    })
}
fn lang_name(primary: &str) -> Option<String> {
    lang_table().get(primary).cloned()
}

/// Some(expected language) when the Accept-Language value follows `tag[;q=number]` members; None = not judged
pub fn language_model(value: &str) -> Option<Option<String>> {
    let mut best: Option<(f32, usize, String)> = None;
    for (i, part) in value.split(',').enumerate() {
        let part = part.trim();
        if part.is_empty() {
            return None;
        }
        let (tag, q) = match part.split_once(';') {
            None => (part, 1.0f32),
            Some((t, qs)) => {
                let qs = qs.trim();
                let num = qs.strip_prefix("q=")?;
                if qs.contains(';') {
                    return None;
                }
                (t.trim(), num.parse::<f32>().ok().filter(|x| (0.0..=1.0).contains(x))?)
            }
        };
        if tag.is_empty() || !tag.chars().all(|c| c.is_ascii_alphanumeric() || c == '-' || c == '*') {
            return None;
        }
        let primary = tag.split('-').next().unwrap_or("");
        if let Some(name) = lang_name(primary) {
            // highest q wins, earliest on ties
            if best.as_ref().map(|b| q > b.0).unwrap_or(true) {
                best = Some((q, i, name));
            }
        }
    }
    Some(best.map(|b| b.2))
}

#[derive(Clone, Debug)]
pub struct ExpHead {
    pub version: &'static str,
    /// (name, value) in wire order, cookie/referer removed for requests
    pub headers: Vec<(String, String)>,
    pub cookies: Vec<(String, Option<String>)>,
    pub referer: Option<String>,
    pub software: Option<String>,
    pub lang: Option<Option<String>>,
    /// horder tokens; each entry lists the acceptable renderings
    pub horder: Vec<Vec<String>>,
    pub habsent: Vec<String>,
}

fn render_tokens(name: &str, value: &str, optional: &[&str], skip: &[&str]) -> Vec<String> {
    let opt_exact = optional.contains(&name);
    let skip_exact = skip.contains(&name);
    let plain = format!("{name}=[{value}]");
    if opt_exact {
        vec![format!("?{name}")]
    } else if skip_exact {
        vec![name.to_string()]
    } else {
        let mut v = vec![plain];
        // names that are only case variants of listed headers: either marking is accepted
        if optional.iter().any(|o| o.eq_ignore_ascii_case(name)) {
            v.push(format!("?{name}"));
        }
        if skip.iter().any(|o| o.eq_ignore_ascii_case(name)) {
            v.push(name.to_string());
        }
        v
    }
}

pub fn expect(headers: &[Hdr], request: bool, v11: bool) -> ExpHead {
    let (optional, skip, common): (&[&str], &[&str], &[&str]) = if request { (&REQ_OPTIONAL, &REQ_SKIP, &REQ_COMMON) } else { (&RESP_OPTIONAL, &RESP_SKIP, &RESP_COMMON) };
    let mut out_headers = vec![];
    let mut horder = vec![];
    let mut cookies = vec![];
    let mut referer = None;
    let mut cookie_value: Option<String> = None;
    for h in headers {
        let lower = h.name.to_ascii_lowercase();
        if request && lower == "cookie" {
            cookie_value = Some(h.value.clone());
            continue;
        }
        if request && lower == "referer" {
            referer = Some(h.value.clone());
            continue;
        }
        out_headers.push((h.name.clone(), h.value.clone()));
        horder.push(render_tokens(&h.name, &h.value, optional, skip));
    }
    if let Some(cv) = cookie_value {
        for part in cv.split(';') {
            let p = part.trim_matches(|c| c == ' ' || c == '\t');
            if p.is_empty() {
                continue;
            }
            match p.split_once('=') {
                Some((n, v)) => cookies.push((n.trim().to_string(), Some(v.trim().to_string()))),
                None => cookies.push((p.to_string(), None)),
            }
        }
    }
    let sw_name = if request { "user-agent" } else { "server" };
    let software = headers.iter().find(|h| h.name.eq_ignore_ascii_case(sw_name)).map(|h| h.value.clone());
    let lang = if request {
        match headers.iter().find(|h| h.name.eq_ignore_ascii_case("accept-language")) {
            Some(h) => language_model(&h.value),
            None => Some(None),
        }
    } else {
        None
    };
    let present: Vec<String> = out_headers.iter().map(|(n, _)| n.to_ascii_lowercase()).collect();
    let habsent = common.iter().filter(|c| !present.contains(&c.to_ascii_lowercase())).map(|c| c.to_string()).collect();
    ExpHead { version: if v11 { "1" } else { "0" }, headers: out_headers, cookies, referer, software, lang, horder, habsent }
}

fn check_sig_string(who: &str, got: &str, e: &ExpHead) -> Result<(), Fail> {
    // version:horder:habsent:software   (horder tokens may contain ':' inside bracket values -> compare constructively)
    let sw_acc: Vec<String> = match &e.software {
        Some(s) => vec![s.clone()],
        None => vec!["???".to_string(), String::new()],
    };
    // enumerate acceptable strings lazily: walk tokens
    let prefix = format!("{}:", e.version);
    if !got.starts_with(&prefix) {
        return Err(fail!(format!("{who}:signature:version"), "expected version {} in {:?}", e.version, truncate(got, 300)));
    }
    let mut rest = &got[prefix.len()..];
    for (i, alts) in e.horder.iter().enumerate() {
        if i > 0 {
            if !rest.starts_with(',') {
                return Err(fail!(format!("{who}:signature:horder"), "header #{i}: expected one of {:?}, remaining {:?}", alts, truncate(rest, 200)));
            }
            rest = &rest[1..];
        }
        // longest alternative first
        let mut a2 = alts.clone();
        a2.sort_by_key(|s| std::cmp::Reverse(s.len()));
        match a2.iter().find(|a| rest.starts_with(a.as_str())) {
            Some(a) => rest = &rest[a.len()..],
            None => return Err(fail!(format!("{who}:signature:horder"), "header #{i}: expected one of {:?}, remaining {:?}", alts, truncate(rest, 200))),
        }
    }
    let tail_acc: Vec<String> = sw_acc.iter().map(|s| format!(":{}:{}", e.habsent.join(","), s)).collect();
    if !tail_acc.iter().any(|t| t == rest) {
        return Err(fail!(format!("{who}:signature:habsent-or-software"), "expected one of {:?} got {:?}", tail_acc, truncate(rest, 300)));
    }
    Ok(())
}

pub fn judge_request(who: &str, r: &Request, o: &ObservableHttpRequest) -> Result<(), Fail> {
    let e = expect(&r.headers, true, r.v11);
    if o.method.as_deref() != Some(r.method.as_str()) {
        return Err(fail!(format!("{who}:method"), "expected {} got {:?}", r.method, o.method));
    }
    if o.uri.as_deref() != Some(r.target.as_str()) {
        return Err(fail!(format!("{who}:target"), "expected {:?} got {:?}", r.target, o.uri));
    }
    let got: Vec<(String, String)> = o.headers.iter().map(|h| (h.name.clone(), h.value.clone().unwrap_or_default())).collect();
    if got != e.headers {
        return Err(fail!(format!("{who}:headers"), "expected {:?}\ngot      {:?}", e.headers, got));
    }
    let gc: Vec<(String, Option<String>)> = o.cookies.iter().map(|c| (c.name.clone(), c.value.clone())).collect();
    if gc != e.cookies {
        return Err(fail!(format!("{who}:cookies"), "expected {:?} got {:?}", e.cookies, gc));
    }
    if o.referer != e.referer {
        return Err(fail!(format!("{who}:referer"), "expected {:?} got {:?}", e.referer, o.referer));
    }
    if o.user_agent != e.software {
        return Err(fail!(format!("{who}:user-agent"), "expected {:?} got {:?}", e.software, o.user_agent));
    }
    if let Some(l) = &e.lang {
        if &o.lang != l {
            return Err(fail!(format!("{who}:language"), "expected {:?} got {:?} for headers {:?}", l, o.lang, r.headers.iter().filter(|h| h.name.eq_ignore_ascii_case("accept-language")).map(|h| &h.value).collect::<Vec<_>>()));
        }
    }
    check_sig_string(who, &format!("{}", o.matching), &e)
}

pub fn judge_response(who: &str, r: &Response, o: &ObservableHttpResponse) -> Result<(), Fail> {
    let e = expect(&r.headers, false, r.v11);
    if o.status_code != Some(r.status) {
        return Err(fail!(format!("{who}:status"), "expected {} got {:?}", r.status, o.status_code));
    }
    let got: Vec<(String, String)> = o.headers.iter().map(|h| (h.name.clone(), h.value.clone().unwrap_or_default())).collect();
    if got != e.headers {
        return Err(fail!(format!("{who}:headers"), "expected {:?}\ngot      {:?}", e.headers, got));
    }
    check_sig_string(who, &format!("{}", o.matching), &e)
}

#[derive(Clone, Debug, Serialize, Deserialize, Hash)]
pub struct ReqCase {
    pub req: Request,
    pub bodies: Vec<Vec<u8>>,
    pub packets: bool,
}
#[derive(Clone, Debug, Serialize, Deserialize, Hash)]
pub struct RespCase {
    pub resp: Response,
    pub bodies: Vec<Vec<u8>>,
    pub packets: bool,
}

fn nontrivial(headers: &[Hdr], bodies: &[Vec<u8>], request: bool) -> bool {
    let (optional, skip): (&[&str], &[&str]) = if request { (&REQ_OPTIONAL, &REQ_SKIP) } else { (&RESP_OPTIONAL, &RESP_SKIP) };
    let mut names: Vec<String> = headers.iter().map(|h| h.name.to_ascii_lowercase()).collect();
    let n = names.len();
    names.sort();
    names.dedup();
    headers.len() >= 3
        && (bodies.iter().any(|b| !b.is_empty())
            || names.len() != n
            || headers.iter().any(|h| optional.contains(&h.name.as_str()) || skip.contains(&h.name.as_str()))
            || headers.iter().any(|h| h.name.eq_ignore_ascii_case("accept-language") && h.value.contains(',')))
}

fn ip_pair(v4: bool) -> (Ip, Ip) {
    if v4 {
        (Ip::V4(Ip4 { src: [10, 0, 0, 1], dst: [10, 0, 0, 2], ..Ip4::default() }), Ip::V4(Ip4 { src: [10, 0, 0, 2], dst: [10, 0, 0, 1], ..Ip4::default() }))
    } else {
        let a = Ip6::default();
        let b = Ip6 { src: a.dst, dst: a.src, ..Ip6::default() };
        (Ip::V6(a), Ip::V6(b))
    }
}

pub fn http_feed(f: &[u8], flows: &mut ttl_cache::TtlCache<huginn_net_http::http_process::FlowKey, huginn_net_http::http_process::TcpFlow>, procs: &HttpProcessors) -> Result<huginn_net_http::HttpAnalysisResult, String> {
    use huginn_net_http::packet_parser::{parse_packet, IpPacket};
    match parse_packet(f) {
        IpPacket::Ipv4(p) => huginn_net_http::process::process_ipv4_packet(&p, flows, procs, None).map_err(|e| e.to_string()),
        IpPacket::Ipv6(p) => huginn_net_http::process::process_ipv6_packet(&p, flows, procs, None).map_err(|e| e.to_string()),
        IpPacket::None => Err("frame not decoded".into()),
    }
}

pub fn check_req(c: &ReqCase, st: &mut Stats) -> Result<(), Fail> {
    let procs = HttpProcessors::new();
    let head = c.req.head();
    let base = match procs.parse_request(&head) {
        Some(o) => o,
        None => return Err(fail!("api:head-not-parsed", "head {:?}", truncate(&String::from_utf8_lossy(&head), 400))),
    };
    judge_request("api", &c.req, &base)?;
    let base_dbg = format!("{:?}", base);
    for b in &c.bodies {
        let mut data = head.clone();
        data.extend_from_slice(b);
        match procs.parse_request(&data) {
            Some(o) => {
                let d = format!("{:?}", o);
                if d != base_dbg {
                    return Err(fail!("api:body-changes-result", "body {}\nwithout {}\nwith    {}", hex(&b[..b.len().min(60)]), truncate(&base_dbg, 500), truncate(&d, 500)));
                }
            }
            None => return Err(fail!(if std::str::from_utf8(b).is_err() { "api:binary-body-makes-head-unparsable" } else { "api:text-body-makes-head-unparsable" }, "body {}", hex(&b[..b.len().min(60)]))),
        }
    }
    if c.packets {
        for v4 in [true, false] {
            let (cip, _sip) = ip_pair(v4);
            let mut flows = ttl_cache::TtlCache::new(8);
            let syn = frame(Link::Ether, &cip, &Tcp { sport: 40000, dport: 80, seq: 100, flags: SYN, ..Tcp::default() });
            http_feed(&syn, &mut flows, &procs).map_err(|e| fail!("packets:syn-error", "{e}"))?;
            let mut data = head.clone();
            if let Some(b) = c.bodies.first() {
                data.extend_from_slice(b);
            }
            if data.len() > 60000 {
                continue;
            }
            let pkt = frame(Link::Ether, &cip, &Tcp { sport: 40000, dport: 80, seq: 101, ack: 1, flags: ACK | PSH, payload: data, ..Tcp::default() });
            let r = http_feed(&pkt, &mut flows, &procs).map_err(|e| fail!("packets:error", "{e}"))?;
            match r.http_request {
                Some(o) => {
                    judge_request("packets", &c.req, &o.sig)?;
                    if o.source.ip != cip.src() || o.destination.ip != cip.dst() || o.source.port != 40000 || o.destination.port != 80 {
                        return Err(fail!("packets:endpoints", "{}:{} -> {}:{}", o.source.ip, o.source.port, o.destination.ip, o.destination.port));
                    }
                    if let Some(l) = expect(&c.req.headers, true, c.req.v11).lang {
                        if o.lang != l {
                            return Err(fail!("packets:lang-field", "expected {:?} got {:?}", l, o.lang));
                        }
                    }
                }
                None => return Err(fail!("packets:request-not-reported", "head {:?}", truncate(&String::from_utf8_lossy(&head), 300))),
            }
        }
    }
    let _ = st;
    Ok(())
}

pub fn check_resp(c: &RespCase, st: &mut Stats) -> Result<(), Fail> {
    let procs = HttpProcessors::new();
    let head = c.resp.head();
    let base = match procs.parse_response(&head) {
        Some(o) => o,
        None => return Err(fail!("api:response-head-not-parsed", "head {:?}", truncate(&String::from_utf8_lossy(&head), 400))),
    };
    judge_response("api", &c.resp, &base)?;
    let base_dbg = format!("{:?}", base);
    for b in &c.bodies {
        let mut data = head.clone();
        data.extend_from_slice(b);
        match procs.parse_response(&data) {
            Some(o) => {
                let d = format!("{:?}", o);
                if d != base_dbg {
                    return Err(fail!("api:body-changes-response", "body {}\nwithout {}\nwith    {}", hex(&b[..b.len().min(60)]), truncate(&base_dbg, 500), truncate(&d, 500)));
                }
            }
            None => return Err(fail!(if std::str::from_utf8(b).is_err() { "api:binary-body-makes-response-head-unparsable" } else { "api:text-body-makes-response-head-unparsable" }, "body {}", hex(&b[..b.len().min(60)]))),
        }
    }
    if c.packets {
        let (cip, sip) = ip_pair(true);
        let mut flows = ttl_cache::TtlCache::new(8);
        let syn = frame(Link::Ether, &cip, &Tcp { sport: 40000, dport: 80, seq: 100, flags: SYN, ..Tcp::default() });
        http_feed(&syn, &mut flows, &procs).map_err(|e| fail!("packets:syn-error", "{e}"))?;
        let mut data = head.clone();
        if let Some(b) = c.bodies.first() {
            data.extend_from_slice(b);
        }
        if data.len() <= 60000 {
            let pkt = frame(Link::Ether, &sip, &Tcp { sport: 80, dport: 40000, seq: 9000, ack: 101, flags: ACK | PSH, payload: data, ..Tcp::default() });
            let r = http_feed(&pkt, &mut flows, &procs).map_err(|e| fail!("packets:error", "{e}"))?;
            match r.http_response {
                Some(o) => judge_response("packets", &c.resp, &o.sig)?,
                None => return Err(fail!("packets:response-not-reported", "head {:?}", truncate(&String::from_utf8_lossy(&head), 300))),
            }
        }
    }
    let _ = st;
    Ok(())
}

pub fn run(ctx: &Ctx) {
    ctx.assume("heads use CRLF line ends (the property's quantifier); header values never begin or end with non-ASCII white space; header names are RFC 7230 tokens");
    ctx.assume("for header names that are only case variants of listed optional / value-elided headers either marking is accepted; software string of a head without User-Agent/Server: `???` or empty; Accept-Language values outside `tag[;q=number]` members are not judged for language");
    let n = ctx.tier.pick(150_000, 3_000_000);
    ctx.run_prop(
        "requests",
        "proptest request heads (16 methods, targets, HTTP/1.0|1.1, 0..100 headers from listed / case-variant / arbitrary token names, duplicates, UTF-8 values, OWS variants, Accept-Language lists with q-values) x 3 bodies (empty / text with line breaks, header-like lines, a second request / arbitrary binary); reference head reader over the generated structure + body independence; 1 in 6 also as packets (SYN + data, IPv4 and IPv6); non-trivial: >= 3 headers and (non-empty body, duplicate/case variant, optional/skip header, or multi-member Accept-Language)",
        n,
        || (g::request(), proptest::collection::vec(g::body(), 3), 0u8..6).prop_map(|(req, bodies, k)| ReqCase { req, bodies, packets: k == 0 }),
        |c: &ReqCase, st: &mut Stats| {
            if nontrivial(&c.req.headers, &c.bodies, true) {
                st.nontrivial(c);
            }
            if c.bodies.iter().any(|b| std::str::from_utf8(b).is_err()) {
                st.class("with-binary-body");
            }
            if c.req.headers.len() >= 99 {
                st.class("headers>=99");
            }
            st.sample(|| json!({"head": truncate(&String::from_utf8_lossy(&c.req.head()), 300), "bodies": c.bodies.iter().map(|b| hex(&b[..b.len().min(24)])).collect::<Vec<_>>()}));
            check_req(c, st)
        },
    );
    let n = ctx.tier.pick(100_000, 2_000_000);
    ctx.run_prop(
        "responses",
        "proptest response heads (any 3-digit status, optional reason, 0..100 headers) x 3 bodies; same oracles; non-trivial as for requests",
        n,
        || (g::response(), proptest::collection::vec(g::body(), 3), 0u8..6).prop_map(|(resp, bodies, k)| RespCase { resp, bodies, packets: k == 0 }),
        |c: &RespCase, st: &mut Stats| {
            if nontrivial(&c.resp.headers, &c.bodies, false) {
                st.nontrivial(c);
            }
            st.sample(|| json!({"head": truncate(&String::from_utf8_lossy(&c.resp.head()), 300)}));
            check_resp(c, st)
        },
    );
    let n = ctx.tier.pick(300_000, 3_000_000);
    ctx.run_prop(
        "accept-language",
        "proptest Accept-Language lists (known / unknown tags, sub-tags, q-values 0..1, ties, optional blanks) vs the rule `highest q among known languages, earliest on ties`; non-trivial: >= 2 members",
        n,
        g::accept_language,
        |v: &String, st: &mut Stats| {
            if v.contains(',') {
                st.nontrivial(v);
            }
            st.sample(|| json!({"value": v}));
            match language_model(v) {
                None => {
                    st.class("not-judged");
                    Ok(())
                }
                Some(exp) => {
                    let got = huginn_net_http::http_languages::get_highest_quality_language(v.clone());
                    if got != exp {
                        Err(fail!("language", "{v:?}: expected {:?} got {:?}", exp, got))
                    } else {
                        Ok(())
                    }
                }
            }
        },
    );
}

pub fn replay(_ctx: &Ctx, sub: &str, input: &serde_json::Value) -> Result<(), Fail> {
    let v = input["value"].clone();
    let mut st = Stats::new();
    match sub {
        "requests" => check_req(&serde_json::from_value(v).map_err(|e| fail!("bad-replay", "{e}"))?, &mut st),
        "responses" => check_resp(&serde_json::from_value(v).map_err(|e| fail!("bad-replay", "{e}"))?, &mut st),
        "accept-language" => {
            let s: String = serde_json::from_value(v).map_err(|e| fail!("bad-replay", "{e}"))?;
            match language_model(&s) {
                Some(exp) if huginn_net_http::http_languages::get_highest_quality_language(s.clone()) != exp => Err(fail!("language", "{s:?}")),
                _ => Ok(()),
            }
        }
        _ => Err(fail!("bad-replay", "unknown sub {sub}")),
    }
}
