//! C08 — TLS ClientHello reassembly is segmentation-invariant and reports exactly once.
use crate::engine::{hex, idx, Ctx, Fail, Stats};
use crate::gen::frames::{frame, Ip, Ip4, Ip6, Link, Tcp, ACK, PSH};
use crate::gen::tls::{self as gt, Hello};
use huginn_net_tls::tls_client_hello_reader::TlsClientHelloReader;
use proptest::prelude::*;
use serde::{Deserialize, Serialize};
use serde_json::json;

#[derive(Clone, Debug, Serialize, Deserialize, Hash)]
pub struct SegCase {
    pub hello: Hello,
    /// raw cut selectors, mapped monotonically onto 1..len-1
    pub cuts: Vec<u16>,
    /// bytes following the record in the stream (never starting a new handshake record)
    pub trailing: Vec<u8>,
    pub v4: bool,
}

/// cut positions (sorted, distinct, inside 1..total) from raw selectors
pub fn cut_positions(raw: &[u16], total: usize) -> Vec<usize> {
    if total < 2 {
        return vec![];
    }
    let mut v: Vec<usize> = raw.iter().map(|r| 1 + idx(*r, total - 1)).collect();
    v.sort_unstable();
    v.dedup();
    v
}

pub fn split(data: &[u8], cuts: &[usize]) -> Vec<Vec<u8>> {
    let mut out = vec![];
    let mut prev = 0;
    for c in cuts {
        out.push(data[prev..*c].to_vec());
        prev = *c;
    }
    out.push(data[prev..].to_vec());
    out
}

fn sig_debug(s: &huginn_net_tls::tls::Signature) -> String {
    format!("{:?}|{:?}|{:?}", s, s.generate_ja4(), s.generate_ja4_original())
}

/// reader API: segments -> exactly one Some, on the completing chunk, equal to the one-shot result
pub fn check_reader(record: &[u8], stream: &[u8], cuts: &[usize]) -> Result<(), Fail> {
    let oneshot = match huginn_net_tls::tls_process::parse_tls_client_hello(record) {
        Ok(Some(s)) => s,
        _ => {
            // the one-shot delivery yields nothing (e.g. fragment length above the 2^14 record limit of
            // RFC 8446 5.1): invariance then means that no segmentation yields a result either
            // Only segments that carry bytes of this record are constrained: what a reader does with a later handshake
            // record of the same stream is outside the statement.
            let mut reader = TlsClientHelloReader::new();
            let mut before = 0usize;
            for (i, seg) in split(stream, cuts).iter().enumerate() {
                if before >= record.len() {
                    break;
                }
                before += seg.len();
                if let Ok(Some(_)) = reader.add_bytes(seg) {
                    return Err(fail!("reader:segmented-yields-result-oneshot-does-not", "segment {i} cuts {:?}", cuts));
                }
            }
            return Ok(());
        }
    };
    let expect = sig_debug(&oneshot);
    let mut reader = TlsClientHelloReader::new();
    let mut delivered = 0usize;
    let mut reported = 0;
    for (i, seg) in split(stream, cuts).iter().enumerate() {
        let before = delivered;
        delivered += seg.len();
        let completes = before < record.len() && delivered >= record.len();
        match reader.add_bytes(seg) {
            Ok(Some(s)) => {
                reported += 1;
                if !completes {
                    return Err(fail!("reader:reported-on-wrong-segment", "segment {i} (bytes {before}..{delivered}, record {}) cuts {:?}", record.len(), cuts));
                }
                if reported > 1 {
                    return Err(fail!("reader:reported-twice", "segment {i} cuts {:?}", cuts));
                }
                let got = sig_debug(&s);
                if got != expect {
                    return Err(fail!("reader:result-differs-from-oneshot", "cuts {:?}\nexpected {}\ngot      {}", cuts, expect, got));
                }
            }
            Ok(None) => {
                if completes {
                    return Err(fail!("reader:not-reported-on-completion", "segment {i} (bytes {before}..{delivered}, record {}) cuts {:?}", record.len(), cuts));
                }
            }
            Err(e) => return Err(fail!("reader:error", "segment {i} cuts {:?}: {e}", cuts)),
        }
        // the reader's accessors tell the same story as the return values: nothing before completion, the reported signature afterwards
        let have = reader.get_signature().map(sig_debug);
        if reader.signature_parsed() != have.is_some() || have.is_some() != (reported > 0) || have.as_ref().map(|h| *h != expect).unwrap_or(false) {
            return Err(fail!("reader:accessors-disagree-with-the-reported-result", "after segment {i} (bytes ..{delivered}, record {}): reported so far {reported}, signature_parsed {}, get_signature {:?} cuts {:?}", record.len(), reader.signature_parsed(), have.map(|h| crate::engine::truncate(&h, 80)), cuts));
        }
    }
    if reported != 1 {
        return Err(fail!("reader:never-reported", "cuts {:?}", cuts));
    }
    Ok(())
}

pub fn mk_ip(v4: bool) -> Ip {
    if v4 {
        Ip::V4(Ip4::default())
    } else {
        Ip::V6(Ip6::default())
    }
}

pub fn seg_frames(ip: &Ip, sport: u16, dport: u16, isn: u32, segs: &[Vec<u8>]) -> Vec<Vec<u8>> {
    let mut seq = isn;
    let mut out = vec![];
    for s in segs {
        let tcp = Tcp { sport, dport, seq, ack: 1, flags: ACK | PSH, payload: s.clone(), ..Tcp::default() };
        out.push(frame(Link::Ether, ip, &tcp));
        seq = seq.wrapping_add(s.len() as u32);
    }
    out
}

pub fn tls_feed(f: &[u8], flows: &mut ttl_cache::TtlCache<huginn_net_tls::FlowKey, TlsClientHelloReader>) -> Result<Option<huginn_net_tls::TlsClientOutput>, String> {
    use huginn_net_tls::packet_parser::{parse_packet, IpPacket};
    match parse_packet(f) {
        IpPacket::Ipv4(p) => huginn_net_tls::process::process_ipv4_packet(&p, flows).map_err(|e| e.to_string()),
        IpPacket::Ipv6(p) => huginn_net_tls::process::process_ipv6_packet(&p, flows).map_err(|e| e.to_string()),
        IpPacket::None => Err("frame not decoded".into()),
    }
}

/// packet level: first segment >= 5 bytes
pub fn check_packets(record: &[u8], stream: &[u8], cuts: &[usize], v4: bool) -> Result<(), Fail> {
    let ip = mk_ip(v4);
    // reference: single segment
    let mut flows = ttl_cache::TtlCache::new(16);
    let single = seg_frames(&ip, 40001, 443, 5000, &[record.to_vec()]);
    let reference = match tls_feed(&single[0], &mut flows) {
        Ok(Some(o)) => crate::drive::tls_out_str(&o),
        other => return Err(fail!("packets:single-segment-not-reported", "{:?}", other.map(|o| o.is_some()))),
    };
    let segs = split(stream, cuts);
    let plain = seg_frames(&ip, 40001, 443, 5000, &segs);
    // the same segments as they look on the wire: Ethernet frames padded with zeros to the 60-byte minimum, and (third pass)
    // additionally followed by a 4-byte frame check sequence - bytes behind the IP datagram are not TCP payload
    for wire in 0..3u8 {
        if wire > 0 && !(wire == 2 || plain.iter().any(|f| f.len() < 60)) {
            continue;
        }
        let frames: Vec<Vec<u8>> = plain
            .iter()
            .map(|f| {
                let mut f = f.clone();
                if wire > 0 && f.len() < 60 {
                    f.resize(60, 0);
                }
                if wire == 2 {
                    f.extend_from_slice(&[0xde, 0xad, 0xbe, 0xef]);
                }
                f
            })
            .collect();
        check_packets_frames(record, &reference, &segs, &frames, cuts).map_err(|f| if wire == 0 { f } else { Fail::new(format!("{}:{}", f.what, if wire == 1 { "frames-padded-to-60-bytes" } else { "frames-with-padding-and-fcs" }), f.detail) })?;
    }
    Ok(())
}

fn check_packets_frames(record: &[u8], reference: &str, segs: &[Vec<u8>], frames: &[Vec<u8>], cuts: &[usize]) -> Result<(), Fail> {
    let reference = reference.to_string();
    let mut flows = ttl_cache::TtlCache::new(16);
    let mut delivered = 0usize;
    let mut reported = 0;
    for (i, f) in frames.iter().enumerate() {
        let before = delivered;
        delivered += segs[i].len();
        let completes = before < record.len() && delivered >= record.len();
        match tls_feed(f, &mut flows) {
            Ok(Some(o)) => {
                reported += 1;
                if !completes {
                    return Err(fail!("packets:reported-on-wrong-segment", "segment {i} bytes {before}..{delivered} record {} cuts {:?}", record.len(), cuts));
                }
                let got = crate::drive::tls_out_str(&o);
                if got != reference {
                    return Err(fail!("packets:result-differs-from-single-segment", "cuts {:?}\nexpected {}\ngot      {}", cuts, reference, got));
                }
            }
            Ok(None) => {
                if completes {
                    return Err(fail!("packets:not-reported-on-completion", "segment {i} bytes {before}..{delivered} record {} cuts {:?}", record.len(), cuts));
                }
            }
            Err(e) => return Err(fail!("packets:error", "segment {i}: {e}")),
        }
    }
    if reported != 1 {
        return Err(fail!("packets:report-count", "{reported} results for cuts {:?}", cuts));
    }
    Ok(())
}

pub fn interesting(cuts: &[usize], total: usize, trailing: usize) -> bool {
    !cuts.is_empty() && (cuts.iter().any(|c| *c < 9) || cuts.iter().any(|c| *c <= total && total - c <= 2) || cuts.iter().any(|c| (9..=11).contains(c) || (43..=48).contains(c)) || trailing > 0)
}

/// records that are not a ClientHello
pub const K_MIDSTREAM: &str = "K-C08-midstream";

pub fn non_client_hello_records() -> Vec<(&'static str, Vec<u8>)> {
    let mut v = vec![];
    // ServerHello-like handshake record (type 2)
    let mut sh = vec![0x16, 0x03, 0x03, 0x00, 0x2a, 0x02, 0x00, 0x00, 0x26, 0x03, 0x03];
    sh.extend(std::iter::repeat(0x11).take(32));
    sh.extend_from_slice(&[0x00, 0x13, 0x01, 0x00]);
    v.push(("server-hello", sh));
    v.push(("alert", vec![0x15, 0x03, 0x03, 0x00, 0x02, 0x02, 0x28]));
    let mut app = vec![0x17, 0x03, 0x03, 0x00, 0x20];
    app.extend(std::iter::repeat(0xab).take(32));
    v.push(("application-data", app));
    v.push(("change-cipher-spec", vec![0x14, 0x03, 0x03, 0x00, 0x01, 0x01]));
    // handshake record carrying a Finished-like / certificate message type
    let mut other = vec![0x16, 0x03, 0x03, 0x00, 0x0c, 0x0e, 0x00, 0x00, 0x00, 0x10, 0x00, 0x00, 0x04, 1, 2, 3, 4];
    other[4] = (other.len() - 5) as u8;
    v.push(("server-hello-done+kx", other));
    // records that are not a ClientHello but carry the bytes of one: a cut in front of the embedded bytes must not
    // make the reader take them for the start of the stream
    let hello = gt::simple_hello().record();
    for (name, ctype) in [("application-data-embedding-a-hello", 0x17u8), ("alert-embedding-a-hello", 0x15), ("unknown-type-embedding-a-hello", 0x00)] {
        for lead in [0usize, 3, 40] {
            let mut payload = vec![0xEEu8; lead];
            payload.extend_from_slice(&hello);
            payload.extend_from_slice(&[0xEE; 7]);
            let mut r = vec![ctype, 0x03, 0x03, (payload.len() >> 8) as u8, payload.len() as u8];
            r.extend(payload);
            v.push((name, r));
        }
    }
    // a ServerHello-type handshake message whose body embeds a ClientHello record
    let mut body = vec![0x03, 0x03];
    body.extend_from_slice(&hello);
    let mut hs = vec![0x02, (body.len() >> 16) as u8, (body.len() >> 8) as u8, body.len() as u8];
    hs.extend(body);
    let mut r = vec![0x16, 0x03, 0x03, (hs.len() >> 8) as u8, hs.len() as u8];
    r.extend(hs);
    v.push(("server-hello-embedding-a-hello", r));
    v
}

pub fn run(ctx: &Ctx) {
    ctx.assume("packet level: the first segment holds at least the five-byte record header (the property's premise); the reader API is checked for every cut");
    ctx.assume("bytes after the record never start another TLS handshake record");
    // (1) every single cut of generated hellos, reader + packets
    let n = ctx.tier.pick(2500, 30000);
    ctx.run_prop(
        "all-single-cuts",
        "proptest hellos x EVERY single cut position (2 segments) through the reader API and (cuts >= 5) the packet-level TLS analyzer; non-trivial: cut inside the first 9 bytes, inside a length field, tail <= 2 bytes",
        n,
        || (gt::hello(), any::<bool>()),
        |(h, v4): &(Hello, bool), st: &mut Stats| {
            if !h.fits() || h.record().len() > 9000 {
                st.discards += 1;
                return Ok(());
            }
            let rec = h.record();
            st.sample(|| json!({"record_len": rec.len(), "record": hex(&rec[..rec.len().min(80)])}));
            for c in 1..rec.len() {
                st.evals += 1;
                if interesting(&[c], rec.len(), 0) {
                    st.nontrivial(&(h, c));
                }
                check_reader(&rec, &rec, &[c])?;
                if c >= 5 {
                    check_packets(&rec, &rec, &[c], *v4)?;
                }
            }
            Ok(())
        },
    );
    // (2) random k-partitions with trailing bytes
    let n = ctx.tier.pick(250_000, 3_000_000);
    ctx.run_prop(
        "random-partitions",
        "proptest hello x up to 40 generated cut positions (clustered around header and length fields) x trailing bytes after the record; reader API and packet level (first segment >= 5 bytes); non-trivial: >=2 segments and a cut in the first 9 bytes / a length field / tail <= 2 bytes, or trailing bytes",
        n,
        || {
            (
                gt::hello(),
                proptest::collection::vec(prop_oneof![3 => any::<u16>(), 2 => 0u16..600, 1 => 65000u16..=65535], 0..40),
                prop_oneof![3 => Just(vec![]), 1 => proptest::collection::vec(any::<u8>(), 1..40).prop_map(|mut v| { if v[0] == 0x16 { v[0] = 0x17; } v }), 1 => Just(vec![0x14, 3, 3, 0, 1, 1, 0x17, 3, 3, 0, 2, 9, 9])],
                any::<bool>(),
            )
                .prop_map(|(hello, cuts, trailing, v4)| SegCase { hello, cuts, trailing, v4 })
        },
        |c: &SegCase, st: &mut Stats| check_seg_case(c, st),
    );
    // (3) large hellos (up to the 64 KiB bound) with a few cuts
    let n = ctx.tier.pick(2000, 40_000);
    ctx.run_prop(
        "large-records",
        "hellos padded towards the 64 KiB record bound (padding extension 8..65 KiB) x generated cuts; reader API; records above the 2^14 fragment limit are not valid TLS and must yield nothing under any segmentation; non-trivial: record > 8000 bytes",
        n,
        || (gt::hello(), prop_oneof![3 => 8000u32..16300, 1 => 16300u32..65200], proptest::collection::vec(any::<u16>(), 1..6)),
        |(h, pad, cuts): &(Hello, u32, Vec<u16>), st: &mut Stats| {
            let mut h = h.clone();
            let mut exts: Vec<gt::Ext> = h.exts().iter().filter(|e| !matches!(e, gt::Ext::Padding(_))).cloned().collect();
            let base = {
                let mut t = h.clone();
                t.extensions = Some(exts.clone());
                t.handshake().len()
            };
            let room = 65531usize.saturating_sub(base + 4);
            let padlen = (*pad as usize).min(room).min(65000);
            exts.push(gt::Ext::Padding(padlen as u16));
            h.extensions = Some(exts);
            if !h.fits() {
                st.discards += 1;
                return Ok(());
            }
            let rec = h.record();
            if rec.len() > 8000 {
                st.nontrivial(&(rec.len(), cuts));
            }
            st.class(if rec.len() > 60000 { "record>60000 (not a valid TLS record: nothing may be reported)" } else if rec.len() > 16389 { "record>16KiB (not a valid TLS record: nothing may be reported)" } else { "record<=16KiB" });
            st.sample(|| json!({"record_len": rec.len(), "cuts": cut_positions(cuts, rec.len())}));
            check_reader(&rec, &rec, &cut_positions(cuts, rec.len()))
        },
    );
    // (4) records that are not a ClientHello: nothing is ever reported
    let others = non_client_hello_records();
    let embedded_hello = gt::simple_hello().record();
    let n_o = others.len() as u64;
    ctx.run_indexed("non-client-hello", "ServerHello / alert / application-data / CCS / other handshake records, and records of four kinds whose payload embeds the bytes of a ClientHello record (at 3 offsets), x every single cut x {reader, packet level v4, v6}; non-trivial: every case", true, n_o, |i, st| {
        let (name, rec) = &others[i as usize];
        for c in 0..rec.len() {
            st.evals += 1;
            st.nontrivial(&(name, c));
            let cuts: Vec<usize> = if c == 0 { vec![] } else { vec![c] };
            let mut reader = TlsClientHelloReader::new();
            for seg in split(rec, &cuts) {
                if let Ok(Some(s)) = reader.add_bytes(&seg) {
                    st.fail(fail!("reader:non-clienthello-reported", "{name}: {:?}", s), json!({"record": hex(rec), "cut": c}));
                }
            }
            for v4 in [true, false] {
                if c != 0 && c < 5 {
                    continue;
                }
                let ip = mk_ip(v4);
                let mut flows = ttl_cache::TtlCache::new(8);
                for f in seg_frames(&ip, 40002, 443, 77, &split(rec, &cuts)) {
                    if let Ok(Some(o)) = tls_feed(&f, &mut flows) {
                        // recorded finding: the packet-level analyzer keeps no state for a connection whose first segment is not a
                        // TLS handshake, so a later segment that begins exactly at embedded ClientHello bytes is read as a new stream
                        let embedded_at = rec.windows(embedded_hello.len()).position(|w| w == &embedded_hello[..]);
                        let is_the_finding = rec[0] != 0x16 && Some(c) == embedded_at && {
                            let mut fresh = ttl_cache::TtlCache::new(8);
                            let alone = seg_frames(&ip, 40002, 443, 77, &[embedded_hello.clone()]).into_iter().filter_map(|g| tls_feed(&g, &mut fresh).ok().flatten()).next();
                            alone.map(|a| crate::drive::tls_out_str(&a)) == Some(crate::drive::tls_out_str(&o))
                        };
                        if is_the_finding && ctx.is_known(K_MIDSTREAM) {
                            st.known(K_MIDSTREAM);
                            continue;
                        }
                        st.fail(fail!("packets:non-clienthello-reported", "{name}: {}", crate::drive::tls_out_str(&o)), json!({"record": hex(rec), "cut": c}));
                    }
                }
            }
        }
        st.sample(|| json!({"kind": name, "record": hex(rec)}));
    });
}

/// per-worker path: K hellos on distinct flows, each in generated segments, interleaved, through the TLS worker pool
pub fn run_pool_variant(ctx: &Ctx) {
    use crate::pool::{run_pool, PoolCfg, PoolKind};
    ctx.shrink_iters.store(15, std::sync::atomic::Ordering::Relaxed);
    let n = ctx.tier.pick(1_500, 30_000);
    ctx.run_prop(
        "tls-pool-segmented",
        "2..6 generated hellos on distinct flows (in half of the runs from one client address, differing in the source port only), each cut into generated segments (first segment >= 5 bytes), segments of the flows interleaved, dispatched to the TLS worker pool (1..8 workers, batch 1..32; in half of the runs with a connection budget equal to the number of flows); oracle: exactly one result per flow, equal to the single-segment sequential result; non-trivial: >= 2 flows with >= 2 segments",
        n,
        || (proptest::collection::vec((gt::hello(), proptest::collection::vec(any::<u16>(), 0..5)), 2..6), 1usize..9, 1usize..33, any::<u64>()),
        |(flows, workers, batch, seed): &(Vec<(Hello, Vec<u16>)>, usize, usize, u64), st: &mut Stats| {
            let mut per_flow: Vec<Vec<Vec<u8>>> = vec![];
            let mut expect: Vec<String> = vec![];
            for (i, (h, cuts)) in flows.iter().enumerate() {
                if !h.fits() || h.record().len() > 16000 {
                    st.discards += 1;
                    return Ok(());
                }
                let rec = h.record();
                // every other run: all flows from ONE client address (they differ in the source port only)
                let host = if (seed >> 1) % 2 == 0 { 1 } else { i as u8 + 1 };
                // every other run over IPv6 (a dispatch hash has to find the addresses in either header layout)
                let ip = if (seed >> 2) % 2 == 0 {
                    Ip::V4(Ip4 { src: [10, 7, 0, host], dst: [10, 7, 1, 1], ..Ip4::default() })
                } else {
                    let mut a = [0u8; 16];
                    a[0] = 0x20;
                    a[1] = 0x01;
                    a[2] = 0x0d;
                    a[3] = 0xb8;
                    a[13] = 7;
                    let mut b = a;
                    a[15] = host;
                    b[14] = 1;
                    b[15] = 1;
                    Ip::V6(Ip6 { src: a, dst: b, ..Ip6::default() })
                };
                let mut cp = cut_positions(cuts, rec.len());
                cp.retain(|c| *c >= 5);
                let frames = seg_frames(&ip, 42000 + i as u16, 443, 1000, &split(&rec, &cp));
                // reference: single segment, sequential
                let mut fl = ttl_cache::TtlCache::new(4);
                let single = seg_frames(&ip, 42000 + i as u16, 443, 1000, &[rec.clone()]);
                match tls_feed(&single[0], &mut fl) {
                    Ok(Some(o)) => expect.push(crate::drive::tls_out_str(&o)),
                    _ => return Err(fail!("pool:reference-not-reported", "flow {i}")),
                }
                per_flow.push(frames);
            }
            if per_flow.iter().filter(|f| f.len() >= 2).count() >= 2 {
                st.nontrivial(&(flows, workers));
            }
            // order-preserving interleaving
            let mut r = crate::engine::SplitMix(*seed);
            let mut idx = vec![0usize; per_flow.len()];
            let mut frames = vec![];
            loop {
                let alive: Vec<usize> = (0..per_flow.len()).filter(|i| idx[*i] < per_flow[*i].len()).collect();
                if alive.is_empty() {
                    break;
                }
                let k = alive[r.below(alive.len() as u64) as usize];
                frames.push(per_flow[k][idx[k]].clone());
                idx[k] += 1;
            }
            // half of the runs with a connection budget that holds exactly these flows (documented as a per-worker capacity)
            let max_conn = if seed % 2 == 0 { per_flow.len() } else { 1000 };
            let cfg = PoolCfg { workers: *workers, queue: frames.len() + 8, batch: *batch, timeout_ms: 3, dispatchers: 1, perturb: Some(*seed), max_sleep_us: 100, max_conn };
            let run = run_pool(PoolKind::Tls, &frames, &cfg, None, None).map_err(|e| fail!("pool:new", "{e}"))?;
            if let Some(p) = &run.worker_panic {
                return Err(Fail::new(format!("pool:worker-{}", crate::engine::panic_key(p)), p.clone()));
            }
            if run.drain_timeout {
                st.discards += 1;
                return Ok(());
            }
            st.sample(|| json!({"flows": flows.len(), "workers": workers, "frames": frames.len()}));
            let mut got: Vec<String> = run.results.iter().map(|(_, s)| s.clone()).collect();
            let mut exp = expect.clone();
            got.sort();
            exp.sort();
            if got != exp {
                return Err(fail!("pool:results-differ-from-single-segment", "{} results for {} flows (workers {workers}, batch {batch})", got.len(), exp.len()));
            }
            Ok(())
        },
    );
}

/// thorough tier: coverage-guided differential campaign
pub fn fuzz(ctx: &Ctx) {
    if ctx.tier == crate::engine::Tier::Thorough {
        let seeds: Vec<Vec<u8>> = vec![gt::simple_hello()].into_iter().map(|h| { let mut v = vec![3u8, 9, 200]; v.extend(h.record()); v.extend_from_slice(&[0x17, 3, 3, 0, 1, 0]); v }).collect();
        ctx.fuzz_campaign("tls_segments", "seeded", &seeds, 3_000_000, 420);
    }
}

pub fn check_seg_case(c: &SegCase, st: &mut Stats) -> Result<(), Fail> {
    if !c.hello.fits() || c.hello.record().len() > 20000 {
        st.discards += 1;
        return Ok(());
    }
    let rec = c.hello.record();
    let mut stream = rec.clone();
    stream.extend_from_slice(&c.trailing);
    let cuts = cut_positions(&c.cuts, stream.len());
    if interesting(&cuts, rec.len(), c.trailing.len()) {
        st.nontrivial(c);
    }
    st.class(match cuts.len() {
        0 => "segments:1",
        1 => "segments:2",
        2..=5 => "segments:3-6",
        _ => "segments:7+",
    });
    if !c.trailing.is_empty() {
        st.class("with-trailing-bytes");
    }
    st.sample(|| json!({"record_len": rec.len(), "cuts": cuts, "trailing": hex(&c.trailing)}));
    check_reader(&rec, &stream, &cuts)?;
    if cuts.first().map(|f| *f >= 5).unwrap_or(true) {
        check_packets(&rec, &stream, &cuts, c.v4)?;
    }
    Ok(())
}

/// consecutive connections on one 4-tuple (client port reuse) through one analyzer: each hello is reported once, like the first
pub fn check_tuple_reuse(hellos: &[(Hello, Vec<u16>)], v4: bool, st: &mut Stats) -> Result<(), Fail> {
    let ip = mk_ip(v4);
    let mut flows = ttl_cache::TtlCache::new(16);
    let mut isn = 5000u32;
    let mut done = 0;
    for (k, (h, raw_cuts)) in hellos.iter().enumerate() {
        if !h.fits() || h.record().len() > 9000 {
            st.discards += 1;
            return Ok(());
        }
        let rec = h.record();
        let mut fresh = ttl_cache::TtlCache::new(16);
        let single = seg_frames(&ip, 40001, 443, 77, &[rec.clone()]);
        let reference = match tls_feed(&single[0], &mut fresh) {
            Ok(Some(o)) => crate::drive::tls_out_str(&o),
            other => return Err(fail!("reuse:single-segment-not-reported", "{:?}", other.map(|o| o.is_some()))),
        };
        let cuts: Vec<usize> = cut_positions(raw_cuts, rec.len()).into_iter().filter(|c| *c >= 5).collect();
        let segs = split(&rec, &cuts);
        let frames = seg_frames(&ip, 40001, 443, isn, &segs);
        isn = isn.wrapping_add(rec.len() as u32).wrapping_add(100_000);
        let mut reported = 0;
        for (i, f) in frames.iter().enumerate() {
            match tls_feed(f, &mut flows) {
                Ok(Some(o)) => {
                    reported += 1;
                    let got = crate::drive::tls_out_str(&o);
                    if i + 1 != frames.len() || got != reference {
                        return Err(fail!("reuse:wrong-segment-or-result", "connection #{k} on the reused 4-tuple, segment {i} of {}: expected only on the last one\nexpected {}\ngot      {}", frames.len(), crate::engine::truncate(&reference, 200), crate::engine::truncate(&got, 200)));
                    }
                }
                Ok(None) => {}
                Err(e) => return Err(fail!("reuse:error", "connection #{k} segment {i}: {e}")),
            }
        }
        if reported != 1 {
            return Err(fail!("reuse:connection-on-a-reused-4-tuple-not-reported-exactly-once", "connection #{k} (after {done} finished connections on the same 4-tuple, {} segments): {reported} results", frames.len()));
        }
        done += 1;
    }
    if hellos.len() >= 2 {
        st.nontrivial(&(hellos.len(), v4, hellos.iter().map(|h| h.1.clone()).collect::<Vec<_>>()));
    }
    Ok(())
}

pub fn run_tuple_reuse(ctx: &Ctx) {
    let n = ctx.tier.pick(3000, 60_000);
    ctx.run_prop(
        "consecutive-connections-on-one-4-tuple",
        "2..4 generated hellos, each in generated segments (first >= 5 bytes), sent one after the other on the SAME 4-tuple (client port reuse within the flow lifetime) through one packet-level TLS analyzer; oracle: every one of them is reported exactly once, on its completing segment, equal to its single-segment result; non-trivial: >= 2 connections",
        n,
        || (proptest::collection::vec((gt::hello(), proptest::collection::vec(prop_oneof![2 => any::<u16>(), 2 => 0u16..600], 0..4)), 2..5), any::<bool>()),
        |(hs, v4): &(Vec<(Hello, Vec<u16>)>, bool), st: &mut Stats| {
            st.sample(|| json!({"connections": hs.len(), "record_lens": hs.iter().map(|h| h.0.record().len()).collect::<Vec<_>>()}));
            check_tuple_reuse(hs, *v4, st)
        },
    );
}

/// TLS results of the sequential capture loops (`analyze_pcap` of the TLS analyzer and of the unified analyzer), in order
fn pcap_tls(unified: bool, frames: &[Vec<u8>]) -> Result<Vec<String>, String> {
    let path = crate::drive::scratch_file("c08");
    let refs: Vec<&[u8]> = frames.iter().map(|f| f.as_slice()).collect();
    crate::drive::write_pcap(&path, &refs);
    let p = path.to_string_lossy().to_string();
    let out = if unified {
        let (tx, rx) = std::sync::mpsc::channel();
        let mut a = huginn_net::HuginnNet::new(Some(crate::drive::default_db()), 1000, None).map_err(|e| e.to_string())?;
        a.analyze_pcap(&p, tx, None).map_err(|e| e.to_string())?;
        rx.try_iter().filter_map(|r| r.tls_client.as_ref().map(crate::drive::tls_out_str)).collect()
    } else {
        let (tx, rx) = std::sync::mpsc::channel();
        let mut a = huginn_net_tls::HuginnNetTls::new(1000);
        a.analyze_pcap(&p, tx, None).map_err(|e| e.to_string())?;
        rx.try_iter().map(|r| crate::drive::tls_out_str(&r)).collect()
    };
    let _ = std::fs::remove_file(&path);
    Ok(out)
}

/// the sequential analyzers as a user runs them (capture loop -> private per-packet entry point): one result per segmented hello
pub fn check_capture_loop(c: &SegCase, st: &mut Stats) -> Result<(), Fail> {
    if !c.hello.fits() || c.hello.record().len() > 9000 {
        st.discards += 1;
        return Ok(());
    }
    let rec = c.hello.record();
    let mut stream = rec.clone();
    stream.extend_from_slice(&c.trailing);
    // premise: the first segment holds the record header
    let cuts: Vec<usize> = cut_positions(&c.cuts, stream.len()).into_iter().filter(|x| *x >= 5).collect();
    let segs = split(&stream, &cuts);
    let tiny = segs.iter().skip(1).any(|s| s.len() < 5);
    if cuts.len() >= 1 && (tiny || interesting(&cuts, rec.len(), c.trailing.len())) {
        st.nontrivial(c);
    }
    st.class(if tiny { "a-later-segment-shorter-than-5-bytes" } else { "all-later-segments>=5-bytes" });
    let ip = mk_ip(c.v4);
    let wire = (c.cuts.len() + c.trailing.len()) % 3;
    let dress = |fs: Vec<Vec<u8>>| -> Vec<Vec<u8>> {
        fs.into_iter()
            .map(|mut f| {
                if wire > 0 && f.len() < 60 {
                    f.resize(60, 0);
                }
                if wire == 2 {
                    f.extend_from_slice(&[0xde, 0xad, 0xbe, 0xef]);
                }
                f
            })
            .collect()
    };
    let single = dress(seg_frames(&ip, 40001, 443, 5000, &[rec.clone()]));
    let frames = dress(seg_frames(&ip, 40001, 443, 5000, &segs));
    st.sample(|| json!({"record_len": rec.len(), "cuts": cuts, "wire": wire}));
    // the unified analyzer fingerprints single-segment hellos only (its TLS step is the stateless one, see C20): not part of C08
    for unified in [false] {
        let who = if unified { "unified" } else { "tls" };
        let reference = pcap_tls(unified, &single).map_err(|e| fail!(format!("capture-loop:{who}:error"), "{e}"))?;
        if reference.len() != 1 {
            return Err(fail!(format!("capture-loop:{who}:single-segment-not-reported-once"), "{} results", reference.len()));
        }
        let got = pcap_tls(unified, &frames).map_err(|e| fail!(format!("capture-loop:{who}:error"), "{e}"))?;
        if got != reference {
            return Err(fail!(format!("capture-loop:{who}:results-differ-from-single-segment"), "record {} bytes, cuts {:?}, wire {wire}: {} results, expected exactly the single-segment one\nexpected {:?}\ngot      {:?}", rec.len(), cuts, got.len(), reference, got));
        }
    }
    Ok(())
}

pub fn run_capture_loop(ctx: &Ctx) {
    let n = ctx.tier.pick(3000, 60_000);
    ctx.run_prop(
        "capture-loop-segmented",
        "proptest hello x generated cut positions (first segment >= 5 bytes; clustered so that later segments of 1..4 bytes are frequent) x trailing bytes, as Ethernet frames (plain / padded to 60 bytes / padded + FCS) written to a pcap file and analysed by HuginnNetTls::analyze_pcap (the sequential capture loop and its private per-packet entry point); oracle: exactly the one result of the single-frame capture; non-trivial: a later segment shorter than 5 bytes, or a cut in the first 9 bytes / a length field / tail <= 2 bytes, or trailing bytes",
        n,
        || {
            (
                gt::hello(),
                proptest::collection::vec(prop_oneof![2 => any::<u16>(), 2 => 0u16..600, 3 => 65300u16..=65535], 0..8),
                prop_oneof![3 => Just(vec![]), 1 => Just(vec![0x14, 3, 3, 0, 1, 1, 0x17, 3, 3, 0, 2, 9, 9])],
                any::<bool>(),
            )
                .prop_map(|(hello, cuts, trailing, v4)| SegCase { hello, cuts, trailing, v4 })
        },
        |c: &SegCase, st: &mut Stats| check_capture_loop(c, st),
    );
}

pub fn replay(_ctx: &Ctx, sub: &str, input: &serde_json::Value) -> Result<(), Fail> {
    let v = &input["value"];
    let mut st = Stats::new();
    match sub {
        "random-partitions" => {
            let c: SegCase = serde_json::from_value(v.clone()).map_err(|e| fail!("bad-replay", "{e}"))?;
            check_seg_case(&c, &mut st)
        }
        "consecutive-connections-on-one-4-tuple" => {
            let (hs, v4): (Vec<(Hello, Vec<u16>)>, bool) = serde_json::from_value(v.clone()).map_err(|e| fail!("bad-replay", "{e}"))?;
            check_tuple_reuse(&hs, v4, &mut st)
        }
        "capture-loop-segmented" => {
            let c: SegCase = serde_json::from_value(v.clone()).map_err(|e| fail!("bad-replay", "{e}"))?;
            check_capture_loop(&c, &mut st)
        }
        "all-single-cuts" => {
            let (h, v4): (Hello, bool) = serde_json::from_value(v.clone()).map_err(|e| fail!("bad-replay", "{e}"))?;
            let rec = h.record();
            for c in 1..rec.len() {
                check_reader(&rec, &rec, &[c])?;
                if c >= 5 {
                    check_packets(&rec, &rec, &[c], v4)?;
                }
            }
            Ok(())
        }
        _ => Err(fail!("bad-replay", "sub {sub} has no replay")),
    }
}

/// libFuzzer differential target: first 3 bytes choose up to three cuts, the rest is the stream.
/// Oracle: if the one-shot parse of the first record succeeds the segmented reader reports it exactly once
/// on the completing chunk; otherwise no chunking may produce a result.
pub fn fuzz_segments(data: &[u8]) {
    if data.len() < 8 {
        return;
    }
    let raw: Vec<u16> = data[..3].iter().map(|b| (*b as u16) * 257).collect();
    let stream = &data[3..];
    if stream.len() < 5 || stream[0] != 0x16 {
        // the first record is not a ClientHello: its bytes produce no result, however they are cut. What follows the
        // record is outside the statement (a reader may or may not pick up a later handshake record).
        let first_record_end = if stream.len() < 5 { stream.len() } else { (5 + u16::from_be_bytes([stream[3], stream[4]]) as usize).min(stream.len()) };
        let mut r = TlsClientHelloReader::new();
        let mut delivered = 0usize;
        for c in split(stream, &cut_positions(&raw, stream.len())) {
            delivered += c.len();
            let res = r.add_bytes(&c);
            if delivered <= first_record_end {
                if let Ok(Some(_)) = res {
                    panic!("result from the bytes of a record that is not a handshake record");
                }
            } else {
                break;
            }
        }
        return;
    }
    let rec_len = 5 + u16::from_be_bytes([stream[3], stream[4]]) as usize;
    if rec_len > stream.len() {
        return;
    }
    let record = &stream[..rec_len];
    let cuts = cut_positions(&raw, stream.len());
    if let Err(f) = check_reader(record, stream, &cuts) {
        panic!("C08 violated: {} :: {}", f.what, f.detail);
    }
}
