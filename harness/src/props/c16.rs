//! C16 — HTTP/2 requests and responses are decoded as RFC 7540/7541 define them.
use crate::engine::{hex, truncate, Ctx, Fail, Stats};
use crate::gen::h2::{self, Block, DynTable, Field, HeadersFraming, PrioritySpec, Repr};
use huginn_net_http::http_process::HttpProcessors;
use proptest::prelude::*;
use serde::{Deserialize, Serialize};
use serde_json::json;

const REQ_OPTIONAL: [&str; 11] = ["cookie", "referer", "origin", "range", "if-modified-since", "if-none-match", "via", "x-forwarded-for", "authorization", "proxy-authorization", "cache-control"];
const RESP_OPTIONAL: [&str; 12] = ["set-cookie", "last-modified", "etag", "content-length", "content-disposition", "cache-control", "expires", "pragma", "location", "refresh", "content-range", "vary"];
const REQ_SKIP: [&str; 2] = ["host", "user-agent"];
const RESP_SKIP: [&str; 3] = ["date", "content-type", "server"];
const REQ_COMMON: [&str; 8] = ["Host", "User-Agent", "Connection", "Accept", "Accept-Encoding", "Accept-Language", "Accept-Charset", "Keep-Alive"];
const RESP_COMMON: [&str; 5] = ["Content-Type", "Connection", "Keep-Alive", "Accept-Ranges", "Date"];

#[derive(Clone, Debug, Serialize, Deserialize, Hash)]
pub enum PreFrame {
    Settings(Vec<(u16, u32)>),
    SettingsAck,
    WindowUpdate(u32, u32),
    Priority(u32, PrioritySpec),
    Ping([u8; 8]),
    Unknown(u8, u32, Vec<u8>),
    /// DATA on another stream
    OtherData(Vec<u8>),
}
impl PreFrame {
    pub fn bytes(&self) -> Vec<u8> {
        match self {
            PreFrame::Settings(p) => h2::settings_frame(p, false),
            PreFrame::SettingsAck => h2::settings_frame(&[], true),
            PreFrame::WindowUpdate(s, i) => h2::window_update_frame(*s, *i, false),
            PreFrame::Priority(s, p) => h2::priority_frame(*s, p),
            PreFrame::Ping(d) => h2::frame(h2::T_PING, 0, 0, d),
            PreFrame::Unknown(t, s, d) => h2::frame(*t, 0, *s, d),
            PreFrame::OtherData(d) => h2::frame(h2::T_DATA, 0, 2, d),
        }
    }
}

#[derive(Clone, Debug, Serialize, Deserialize, Hash)]
pub struct H2Case {
    pub request: bool,
    pub block: Block,
    pub framing: HeadersFraming,
    pub pre: Vec<PreFrame>,
    /// DATA after the header block on the same stream
    pub body: Option<Vec<u8>>,
    /// adversarial: bytes appended to the encoded header block (e.g. an index that does not exist), so that HPACK
    /// decoding fails *after* the block has already changed the decoder's state. Never set by C16 itself.
    #[serde(default)]
    pub hostile_tail: Vec<u8>,
    /// adversarial: bits flipped in the flags octet of the first HEADERS frame after it has been built (PADDED / PRIORITY claimed
    /// without their octets, END_HEADERS removed ...). Never set by C16 itself.
    #[serde(default)]
    pub flag_xor: u8,
}

impl H2Case {
    pub fn bytes(&self) -> Vec<u8> {
        let mut out = vec![];
        if self.request {
            out.extend_from_slice(h2::PREFACE);
        }
        for p in &self.pre {
            out.extend(p.bytes());
        }
        let mut table = DynTable::new();
        let mut blk = h2::encode_block(&self.block, &mut table);
        blk.extend_from_slice(&self.hostile_tail);
        for (i, mut f) in h2::headers_frames(&blk, &self.framing).into_iter().enumerate() {
            if i == 0 && f.len() > 4 {
                f[4] ^= self.flag_xor;
            }
            out.extend(f);
        }
        if let Some(b) = &self.body {
            out.extend(h2::frame(h2::T_DATA, h2::F_END_STREAM, self.framing.stream, b));
        }
        out
    }
    pub fn encoded_block(&self) -> Vec<u8> {
        let mut table = DynTable::new();
        h2::encode_block(&self.block, &mut table)
    }
}

pub fn uses_feature(c: &H2Case) -> bool {
    c.block.fields.iter().any(|f| f.huffman_value || f.huffman_name || f.repr == Repr::LiteralIndexed)
        || !c.block.size_updates.is_empty()
        || c.framing.pad.is_some()
        || c.framing.priority.is_some()
        || !c.framing.splits.is_empty()
        || dynamic_ref_used(c)
}

/// does the block reference an entry it inserted itself (dynamic-table reference within the block)?
pub fn dynamic_ref_used(c: &H2Case) -> bool {
    let mut seen: Vec<(&str, &[u8])> = vec![];
    for f in &c.block.fields {
        if f.repr == Repr::PreferIndexed && seen.iter().any(|(n, v)| *n == f.name && *v == f.value.as_slice()) {
            return true;
        }
        if matches!(f.repr, Repr::LiteralIndexed | Repr::PreferIndexed) {
            seen.push((&f.name, &f.value));
        }
    }
    false
}

fn token(name: &str, value: &[u8], request: bool) -> Vec<String> {
    let (optional, skip): (&[&str], &[&str]) = if request { (&REQ_OPTIONAL, &REQ_SKIP) } else { (&RESP_OPTIONAL, &RESP_SKIP) };
    let lower = name.to_ascii_lowercase();
    if optional.contains(&lower.as_str()) {
        vec![format!("?{name}")]
    } else if skip.contains(&lower.as_str()) {
        vec![name.to_string()]
    } else if value.is_empty() {
        vec![name.to_string(), format!("{name}=[]")]
    } else {
        vec![format!("{name}=[{}]", String::from_utf8_lossy(value))]
    }
}

/// harness self-test: our HPACK encoding decodes (with a fresh decoder of the same library) to the generated list
pub fn selftest(c: &H2Case) -> Result<(), Fail> {
    let blk = c.encoded_block();
    let mut dec = hpack_patched::Decoder::new();
    match dec.decode(&blk) {
        Ok(list) => {
            // the library's static table calls entry 15 `accept-` (K-C16-static15): not an encoder error
            let got: Vec<(Vec<u8>, Vec<u8>)> = list.into_iter().zip(c.block.fields.iter()).map(|((n, v), f)| if n == b"accept-" && f.name == "accept-charset" { (b"accept-charset".to_vec(), v) } else { (n, v) }).collect();
            let exp: Vec<(Vec<u8>, Vec<u8>)> = c.block.fields.iter().map(|f| (f.name.as_bytes().to_vec(), f.value.clone())).collect();
            if got != exp {
                return Err(fail!("harness:hpack-encoder-selftest", "block {} decodes to {} fields, expected {}", hex(&blk), got.len(), exp.len()));
            }
            Ok(())
        }
        Err(e) => Err(fail!("harness:hpack-encoder-selftest", "block {} does not decode: {:?}", hex(&blk), e)),
    }
}

pub fn check(c: &H2Case, st: &mut Stats) -> Result<(), Fail> {
    check_on(c, st, &HttpProcessors::new())
}

/// the same check on an analyzer instance that has already seen other messages (every connection start is decoded
/// as its own header list says, whatever the instance processed before)
pub fn check_after(c: &H2Case, earlier: &[H2Case], st: &mut Stats) -> Result<(), Fail> {
    let procs = HttpProcessors::new();
    for e in earlier {
        let d = e.bytes();
        if e.request {
            let _ = procs.parse_request(&d);
        } else {
            let _ = procs.parse_response(&d);
        }
    }
    check_on(c, st, &procs).map_err(|f| Fail::new(format!("after-other-messages:{}", f.what), f.detail))
}

pub const K_STATIC15: &str = "K-C16-static15";

pub fn check_on(c: &H2Case, st: &mut Stats, procs: &HttpProcessors) -> Result<(), Fail> {
    selftest(c)?;
    let first = check_fields(c, procs, &c.block.fields);
    if first.is_ok() {
        return first;
    }
    // recorded finding: the HPACK library's static table names entry 15 `accept-` instead of `accept-charset`, so an
    // accept-charset field that the encoder expressed through that entry is reported as `accept-` (and `Accept-Charset`
    // counted as absent). Matched only if renaming some of the accept-charset fields explains the whole observation.
    if c.block.fields.iter().any(|f| f.name == "accept-charset") && !st_strict() {
        // which of them went through static entry 15 is read off a fresh library decoder run over the harness's own encoding
        if let Ok(list) = hpack_patched::Decoder::new().decode(&c.encoded_block()) {
            if list.len() == c.block.fields.len() {
                let mut fields = c.block.fields.clone();
                let mut renamed = 0;
                for (f, (n, _)) in fields.iter_mut().zip(list.iter()) {
                    if f.name == "accept-charset" && n == b"accept-" {
                        f.name = "accept-".into();
                        renamed += 1;
                    }
                }
                if renamed > 0 && check_fields(c, procs, &fields).is_ok() {
                    st.known(K_STATIC15);
                    return Ok(());
                }
            }
        }
    }
    first
}

/// is the finding listed (and the run not strict)? set from the run's context
static STATIC15_KNOWN: std::sync::atomic::AtomicBool = std::sync::atomic::AtomicBool::new(false);
fn st_strict() -> bool {
    !STATIC15_KNOWN.load(std::sync::atomic::Ordering::Relaxed)
}

fn check_fields(c: &H2Case, procs: &HttpProcessors, fields: &[crate::gen::h2::Field]) -> Result<(), Fail> {
    let data = c.bytes();
    let get = |n: &str| fields.iter().find(|f| f.name == n).map(|f| String::from_utf8_lossy(&f.value).to_string());
    // expected ordinary headers
    let mut exp_headers: Vec<(String, Option<String>)> = vec![];
    let mut horder: Vec<Vec<String>> = vec![];
    let mut cookies: Vec<(String, Option<String>)> = vec![];
    let mut referer: Option<String> = None;
    for f in fields.iter().filter(|f| !f.name.starts_with(':')) {
        let v = String::from_utf8_lossy(&f.value).to_string();
        if c.request && f.name == "cookie" {
            for part in v.split(';') {
                let p = part.trim();
                if p.is_empty() {
                    continue;
                }
                match p.split_once('=') {
                    Some((n, val)) => cookies.push((n.trim().to_string(), Some(val.trim().to_string()))),
                    None => cookies.push((p.to_string(), None)),
                }
            }
            continue;
        }
        if c.request && f.name == "referer" {
            // an empty value is reported as "no value", like for every other header
            referer = if v.is_empty() { None } else { Some(v) };
            continue;
        }
        exp_headers.push((f.name.clone(), if v.is_empty() { None } else { Some(v) }));
        horder.push(token(&f.name, &f.value, c.request));
    }
    let present: Vec<String> = exp_headers.iter().map(|(n, _)| n.to_ascii_lowercase()).collect();
    let common: &[&str] = if c.request { &REQ_COMMON } else { &RESP_COMMON };
    let habsent: Vec<String> = common.iter().filter(|h| !present.contains(&h.to_ascii_lowercase())).map(|s| s.to_string()).collect();
    let sw_name = if c.request { "user-agent" } else { "server" };
    let software = fields.iter().find(|f| f.name == sw_name && !f.value.is_empty()).map(|f| String::from_utf8_lossy(&f.value).to_string());
    let check_sig = |got: &str| -> Result<(), Fail> {
        let mut rest = match got.strip_prefix("2:") {
            Some(r) => r,
            None => return Err(fail!("signature:version", "expected 2: got {:?}", truncate(got, 200))),
        };
        for (i, alts) in horder.iter().enumerate() {
            if i > 0 {
                rest = match rest.strip_prefix(',') {
                    Some(r) => r,
                    None => return Err(fail!("signature:horder", "header #{i}: expected one of {:?}, remaining {:?}", alts, truncate(rest, 200))),
                };
            }
            let mut a2 = alts.clone();
            a2.sort_by_key(|s| std::cmp::Reverse(s.len()));
            match a2.iter().find(|a| rest.starts_with(a.as_str())) {
                Some(a) => rest = &rest[a.len()..],
                None => return Err(fail!("signature:horder", "header #{i}: expected one of {:?}, remaining {:?}", alts, truncate(rest, 200))),
            }
        }
        let sw: Vec<String> = match &software {
            Some(s) => vec![s.clone()],
            None => vec!["???".into(), String::new()],
        };
        if !sw.iter().any(|s| rest == format!(":{}:{}", habsent.join(","), s)) {
            return Err(fail!("signature:habsent-or-software", "expected :{}:{:?} got {:?}", habsent.join(","), sw, truncate(rest, 300)));
        }
        Ok(())
    };
    if c.request {
        let o = match procs.parse_request(&data) {
            Some(o) => o,
            None => {
                let what = if c.framing.pad.is_some() {
                    "request-not-decoded:padded"
                } else if c.framing.priority.is_some() {
                    "request-not-decoded:priority-flag"
                } else if !c.framing.splits.is_empty() {
                    "request-not-decoded:continuation"
                } else {
                    "request-not-decoded"
                };
                return Err(fail!(what, "bytes {}", truncate(&hex(&data), 600)));
            }
        };
        if o.method != get(":method") {
            return Err(fail!("method", "expected {:?} got {:?}", get(":method"), o.method));
        }
        if o.uri != get(":path") {
            return Err(fail!("path", "expected {:?} got {:?}", get(":path"), o.uri));
        }
        let got: Vec<(String, Option<String>)> = o.headers.iter().map(|h| (h.name.clone(), h.value.clone())).collect();
        if got != exp_headers {
            return Err(fail!("headers", "expected {:?}\ngot      {:?}", exp_headers, got));
        }
        let gc: Vec<(String, Option<String>)> = o.cookies.iter().map(|c| (c.name.clone(), c.value.clone())).collect();
        if gc != cookies {
            return Err(fail!("cookies", "expected {:?} got {:?}", cookies, gc));
        }
        if o.referer != referer {
            return Err(fail!("referer", "expected {:?} got {:?}", referer, o.referer));
        }
        if o.user_agent != software {
            return Err(fail!("user-agent", "expected {:?} got {:?}", software, o.user_agent));
        }
        if let Some(al) = fields.iter().find(|f| f.name == "accept-language") {
            if let Some(exp) = crate::props::c05::language_model(&String::from_utf8_lossy(&al.value)) {
                if o.lang != exp {
                    return Err(fail!("language", "expected {:?} got {:?}", exp, o.lang));
                }
            }
        } else if o.lang.is_some() {
            return Err(fail!("language", "no accept-language but lang {:?}", o.lang));
        }
        check_sig(&format!("{}", o.matching))?;
        // parser-level fields
        let parser = huginn_net_http::http2_parser::Http2Parser::new();
        match parser.parse_request(&data) {
            Ok(Some(r)) => {
                if r.authority != get(":authority") || r.scheme != get(":scheme") {
                    return Err(fail!("authority-or-scheme", "expected {:?}/{:?} got {:?}/{:?}", get(":authority"), get(":scheme"), r.authority, r.scheme));
                }
                if r.stream_id != c.framing.stream {
                    return Err(fail!("stream-id", "expected {} got {}", c.framing.stream, r.stream_id));
                }
            }
            other => return Err(fail!("parser:parse_request", "{:?}", other.map(|o| o.is_some()))),
        }
    } else {
        let o = match procs.parse_response(&data) {
            Some(o) => o,
            None => {
                let what = if c.framing.pad.is_some() {
                    "response-not-decoded:padded"
                } else if c.framing.priority.is_some() {
                    "response-not-decoded:priority-flag"
                } else if !c.framing.splits.is_empty() {
                    "response-not-decoded:continuation"
                } else {
                    "response-not-decoded"
                };
                return Err(fail!(what, "bytes {}", truncate(&hex(&data), 600)));
            }
        };
        let st_exp: Option<u16> = get(":status").and_then(|s| s.parse().ok());
        if o.status_code != st_exp {
            return Err(fail!("status", "expected {:?} got {:?}", st_exp, o.status_code));
        }
        let got: Vec<(String, Option<String>)> = o.headers.iter().map(|h| (h.name.clone(), h.value.clone())).collect();
        if got != exp_headers {
            return Err(fail!("response-headers", "expected {:?}\ngot      {:?}", exp_headers, got));
        }
        check_sig(&format!("{}", o.matching))?;
    }
    Ok(())
}

pub fn pre_frame(request: bool) -> impl Strategy<Value = PreFrame> {
    let _ = request;
    prop_oneof![
        3 => proptest::collection::vec((prop_oneof![3 => 1u16..7, 1 => any::<u16>()], prop_oneof![2 => prop_oneof![Just(0u32), Just(1u32), Just(40u32), Just(100u32), Just(4096u32), Just(16384u32), Just(65536u32)], 1 => any::<u32>()]), 0..7).prop_map(PreFrame::Settings),
        1 => Just(PreFrame::SettingsAck),
        2 => (prop_oneof![Just(0u32), 1u32..9], 1u32..0x7fff_ffff).prop_map(|(s, i)| PreFrame::WindowUpdate(s, i)),
        2 => ((1u32..20), h2::priority_spec()).prop_map(|(s, p)| PreFrame::Priority(s, p)),
        1 => any::<[u8; 8]>().prop_map(PreFrame::Ping),
        1 => (10u8..=255, 0u32..4, proptest::collection::vec(any::<u8>(), 0..20)).prop_map(|(t, s, d)| PreFrame::Unknown(t, s, d)),
        1 => proptest::collection::vec(any::<u8>(), 0..30).prop_map(PreFrame::OtherData),
        // frames at and just below the 16 KiB frame-size limit (the limit is on the payload: the 9 header octets do not count)
        1 => (prop_oneof![Just(16384usize), Just(16383usize), Just(16376usize), Just(16375usize), Just(16380usize), 16000usize..16385], any::<bool>()).prop_map(|(n, data)| if data { PreFrame::OtherData(vec![0x5a; n]) } else { PreFrame::Unknown(0x42, 0, vec![0xa5; n]) }),
    ]
}

/// unique names for the headers whose duplicates make "the" user agent / language ambiguous
fn dedupe(mut b: Block) -> Block {
    let mut seen = std::collections::BTreeSet::new();
    b.fields.retain(|f| !matches!(f.name.as_str(), "user-agent" | "server" | "accept-language" | "referer") || seen.insert(f.name.clone()));
    b
}

pub fn h2_case() -> impl Strategy<Value = H2Case> {
    (any::<bool>(), h2::request_block(), h2::response_block(), h2::headers_framing(), proptest::collection::vec(pre_frame(true), 0..5), proptest::option::weighted(0.3, proptest::collection::vec(any::<u8>(), 0..50)), proptest::bool::weighted(0.15))
        .prop_map(|(request, rq, rs, mut framing, pre, body, big)| {
            let mut block = dedupe(if request { rq } else { rs });
            if big {
                // large blocks (several KiB) so that CONTINUATION splitting is realistic
                for i in 0..30 {
                    block.fields.push(Field { name: format!("x-filler-{i}"), value: vec![b'a' + (i % 26) as u8; 120], repr: Repr::LiteralNotIndexed, name_indexed: false, huffman_name: i % 2 == 0, huffman_value: i % 3 == 0 });
                }
            }
            let mut pre = pre;
            if !request {
                framing.reserved_bit = false;
                // RFC 7540 3.5: the server connection preface is a SETTINGS frame, the first frame the server sends
                if !matches!(pre.first(), Some(PreFrame::Settings(_))) {
                    pre.insert(0, PreFrame::Settings(vec![(3, 100)]));
                }
            }
            H2Case { request, block, framing, pre, body, hostile_tail: vec![], flag_xor: 0 }
        })
}

pub fn run(ctx: &Ctx) {
    STATIC15_KNOWN.store(ctx.is_known(K_STATIC15), std::sync::atomic::Ordering::Relaxed);
    ctx.assume("one header block per connection start, on the first stream that carries HEADERS; a fresh HttpProcessors per case in the first sub-check, an instance that has decoded other messages in `after-other-messages`; user-agent / server / accept-language / referer appear at most once");
    ctx.assume("the harness's HPACK encoder is self-tested on every case by decoding its output with a fresh decoder of the hpack library");
    let n = ctx.tier.pick(60_000, 2_000_000);
    ctx.run_prop(
        "header-lists-x-encodings-x-framings",
        "proptest header lists (pseudo-headers in generated order + 0..55 fields, lower-case names incl. p0f-listed ones) x HPACK representations (indexed, literal with / without / never indexing, indexed or new names, Huffman or plain, size updates) x framings (preface, SETTINGS / WINDOW_UPDATE / PRIORITY / PING / unknown frames before, PADDED 0..255, PRIORITY flag, 0..11 CONTINUATION splits at generated bytes, DATA after) for requests and responses; oracle: the generated header list itself; non-trivial: Huffman, dynamic-table use, size update, padding, priority or CONTINUATION",
        n,
        h2_case,
        |c: &H2Case, st: &mut Stats| {
            if uses_feature(c) {
                st.nontrivial(c);
            }
            if c.framing.pad.is_some() {
                st.class("padded");
            }
            if c.framing.priority.is_some() {
                st.class("priority-flag");
            }
            if !c.framing.splits.is_empty() {
                st.class("continuation");
            }
            if dynamic_ref_used(c) {
                st.class("dynamic-table-reference");
            }
            if c.block.fields.iter().any(|f| f.huffman_value) {
                st.class("huffman");
            }
            st.class(if c.request { "request" } else { "response" });
            st.sample(|| json!({"request": c.request, "fields": c.block.fields.iter().map(|f| format!("{}: {}", f.name, String::from_utf8_lossy(&f.value))).collect::<Vec<_>>(), "framing": format!("{:?}", c.framing), "bytes": truncate(&hex(&c.bytes()), 300)}));
            check(c, st)
        },
    );
    // on an instance that has decoded other connections before
    let n = ctx.tier.pick(30_000, 600_000);
    ctx.run_prop(
        "after-other-messages",
        "the same generated cases, decoded by an analyzer instance that has just processed 1..3 other generated messages (requests and responses, incl. size updates, dynamic-table insertions and half-decodable blocks); oracle: the generated header list itself; non-trivial: the case or an earlier message uses the dynamic table or a size update",
        n,
        || (h2_case(), proptest::collection::vec(h2_case(), 1..4)),
        |(c, earlier): &(H2Case, Vec<H2Case>), st: &mut Stats| {
            if dynamic_ref_used(c) || earlier.iter().any(|e| dynamic_ref_used(e) || uses_feature(e)) {
                st.nontrivial(&(c, earlier));
            }
            st.class(if c.request { "request" } else { "response" });
            if earlier.iter().any(|e| e.request != c.request) {
                st.class("earlier-message-of-the-other-kind");
            }
            st.sample(|| json!({"request": c.request, "earlier": earlier.iter().map(|e| if e.request { "request" } else { "response" }).collect::<Vec<_>>()}));
            check_after(c, earlier, st)
        },
    );
    // every entry of the RFC 7541 static table, as a fully indexed field and as an indexed name with a literal value
    ctx.run_indexed("static-table-entries", "all 61 entries of the RFC 7541 Appendix A static table x {fully indexed field, indexed name + literal value} in a request (regular headers, request pseudo-headers) or a response (:status entries, regular headers); oracle: the RFC table; non-trivial: every case", true, 61 * 2 * 2, |i, st| {
        let entry = (i % 61) as usize;
        let literal_value = (i / 61) % 2 == 1;
        let request = (i / 122) % 2 == 0;
        let (name, value) = h2::STATIC_TABLE[entry];
        if name == ":status" && request || (name.starts_with(':') && name != ":status" && !request) {
            return;
        }
        st.evals += 1;
        st.nontrivial(&(entry, literal_value, request));
        let f = |n: &str, v: &str, repr| Field { name: n.into(), value: v.as_bytes().to_vec(), repr, name_indexed: true, huffman_name: false, huffman_value: false };
        let the_value = if literal_value { "v1" } else { value };
        let mut fields: Vec<Field> = if request { vec![f(":method", "GET", Repr::PreferIndexed), f(":path", "/", Repr::PreferIndexed)] } else { vec![f(":status", "200", Repr::PreferIndexed)] };
        if name.starts_with(':') {
            // replace the pseudo-header of the same name by this entry
            fields.retain(|x| x.name != name);
            let v = if literal_value { match name { ":method" => "PUT", ":path" => "/v1", ":status" => "201", ":scheme" => "ftp", _ => "h.test" } } else { value };
            fields.insert(0, f(name, v, Repr::PreferIndexed));
            if request && !fields.iter().any(|x| x.name == ":method") {
                fields.push(f(":method", "GET", Repr::PreferIndexed));
            }
        } else {
            fields.push(f(name, the_value, if literal_value { Repr::LiteralNotIndexed } else { Repr::PreferIndexed }));
        }
        let c = H2Case { request, block: Block { size_updates: vec![], fields }, framing: h2::HeadersFraming { stream: 1, end_stream: true, pad: None, priority: None, splits: vec![], reserved_bit: false, cont_flags: 0 }, pre: vec![], body: None, hostile_tail: vec![], flag_xor: 0 };
        if let Err(fl) = check(&c, st) {
            st.fail(Fail::new(format!("static-entry-{}:{}", entry + 1, fl.what), fl.detail), json!({"entry": entry + 1, "name": name, "literal_value": literal_value, "request": request}));
        }
    });
    // every split point of small blocks
    let n = ctx.tier.pick(300, 4000);
    ctx.run_prop(
        "every-continuation-split",
        "generated requests/responses x EVERY single split position of the header block into HEADERS + CONTINUATION (and every pair for blocks <= 40 bytes); non-trivial: every case",
        n,
        h2_case,
        |c: &H2Case, st: &mut Stats| {
            let blk = c.encoded_block();
            if blk.len() > 700 {
                st.discards += 1;
                return Ok(());
            }
            st.sample(|| json!({"block_len": blk.len()}));
            for cut in 0..=blk.len() {
                let mut c2 = c.clone();
                // a selector that maps exactly onto `cut`
                let sel = (((cut as u64) << 16) / (blk.len() as u64 + 1) + 1).min(65535) as u16;
                c2.framing.splits = vec![sel];
                if crate::engine::idx(sel, blk.len() + 1) != cut {
                    continue;
                }
                st.evals += 1;
                st.nontrivial(&(c, cut));
                check(&c2, st)?;
            }
            Ok(())
        },
    );
}

pub fn replay(_ctx: &Ctx, sub: &str, input: &serde_json::Value) -> Result<(), Fail> {
    STATIC15_KNOWN.store(_ctx.is_known(K_STATIC15), std::sync::atomic::Ordering::Relaxed);
    if sub == "after-other-messages" {
        let (c, earlier): (H2Case, Vec<H2Case>) = serde_json::from_value(input["value"].clone()).map_err(|e| fail!("bad-replay", "{e}"))?;
        let mut st = Stats::new();
        return check_after(&c, &earlier, &mut st);
    }
    let c: H2Case = serde_json::from_value(input["value"].clone()).map_err(|e| fail!("bad-replay", "{e}"))?;
    let mut st = Stats::new();
    check(&c, &mut st)
}
