//! C01 — analysis is total: no input can crash, hang or poison an analyzer.
use crate::drive;
use crate::engine::{catch, hex, idx, panic_key, truncate, Ctx, Fail, SplitMix, Stats};
use crate::gen::frames::{self as fr, frame, Ip, Ip4, Ip6, Link, Tcp};
use crate::gen::trace::{self, Packet, TraceCase};
use crate::gen::{h2, http1, strat, tls};
use crate::pool::{run_pool, PoolCfg, PoolKind};
use crate::props::c03::TcpCase;
use crate::props::c07::{Analyzer, Kind};
use crate::props::c14::{self, FilterSpec, PortCall, PortSpec};
use huginn_net_db::Database;
use proptest::prelude::*;
use serde::{Deserialize, Serialize};
use serde_json::json;
use std::str::FromStr;

/// read every packet of a classic little-endian pcap file
pub fn read_pcap(path: &str) -> Vec<Vec<u8>> {
    let d = std::fs::read(path).unwrap_or_default();
    let mut out = vec![];
    let mut p = 24;
    while p + 16 <= d.len() {
        let incl = u32::from_le_bytes([d[p + 8], d[p + 9], d[p + 10], d[p + 11]]) as usize;
        p += 16;
        if p + incl > d.len() {
            break;
        }
        out.push(d[p..p + incl].to_vec());
        p += incl;
    }
    out
}

pub fn capture_packets() -> Vec<Vec<u8>> {
    let mut v = vec![];
    for f in ["http-simple-get.pcap", "macos_tcp_flags.pcap", "tls-alpn-h2.pcap", "tls12.pcap"] {
        v.extend(read_pcap(&format!("/repo/pcap/{f}")));
    }
    v
}

fn filters() -> Vec<FilterSpec> {
    vec![
        FilterSpec { deny: false, port: Some(PortSpec { calls: vec![PortCall::Dst(80), PortCall::SrcRange(1024, 65535)], any: false }), ip: None, subnet: None },
        FilterSpec { deny: true, port: None, ip: Some(c14::IpSpec { addrs: vec!["10.0.0.1".parse().unwrap(), "2001:db8::1".parse().unwrap()], side: c14::Side::Both }), subnet: Some(c14::SubnetSpec { nets: vec![("10.0.0.0".parse().unwrap(), 8)], side: c14::Side::Src }) },
    ]
}

/// every stateless frame entry point (filters, hashers, format sniffers)
pub fn stateless_frame_entry_points(f: &[u8]) -> Result<(), String> {
    let _g = crate::engine::case_guard("frame", f);
    catch(|| {
        for spec in filters() {
            let _ = huginn_net_tcp::raw_filter::apply(f, &c14::tcp_cfg(&spec));
            let _ = huginn_net_http::raw_filter::apply(f, &c14::http_cfg(&spec));
            let _ = huginn_net_tls::raw_filter::apply(f, &c14::tls_cfg(&spec));
        }
        let _ = huginn_net_tcp::packet_hash::hash_source_ip(f);
        for n in [1usize, 3, 64] {
            let a = huginn_net_http::packet_hash::hash_flow(f, n);
            assert!(a < n, "http hash_flow index {a} >= {n}");
            if let Some(b) = huginn_net_tls::packet_hash::hash_flow(f, n) {
                assert!(b < n, "tls hash_flow index {b} >= {n}");
            }
        }
        let _ = huginn_net_tcp::packet_parser::detect_datalink_format(f);
        let _ = huginn_net::packet_parser::detect_datalink_format(f);
    })
}

pub struct Instances<'a> {
    pub a: Vec<Analyzer<'a>>,
}
impl<'a> Instances<'a> {
    pub fn new() -> Self {
        Instances { a: vec![Analyzer::new(Kind::Tcp, 64), Analyzer::new(Kind::Http, 64), Analyzer::new(Kind::Tls, 64), Analyzer::new(Kind::Unified, 64)] }
    }
    /// feed a frame to all four analyzers; Err = panic message
    pub fn feed_all(&mut self, f: &[u8], at: u64) -> Result<(), String> {
        let _g = crate::engine::case_guard("frame", f);
        let p = Packet { conn: 0, from_client: true, frame: f.to_vec(), at, tsval: None, payload_len: 0 };
        for a in self.a.iter_mut() {
            catch(|| {
                let _ = a.feed(&p);
            })?;
        }
        Ok(())
    }
}

/// the valid probe trace: TCP handshake with timestamps, HTTP/1 GET + 200, HTTP/2 request, single-segment ClientHello
pub fn probe_trace(tag: u8) -> Vec<Packet> {
    use crate::gen::trace::{Conn, Script};
    let mk = |i: u8, script: Script, s_port: u16| Conn { v4: i % 2 == 0, c_addr: 1, s_addr: 4, c_port: 61000 + (tag as u16) * 16 + i as u16, s_port, script, c_cuts: vec![], s_cuts: vec![], c_isn: 7777, s_isn: 9999, c_ttl: 64, s_ttl: 57, ts: Some((0x0100_0000 * (i as u32 + 1), 1000, 0x0200_0000 * (i as u32 + 1), 250)), gap_ms: 40, fin: false, window: 29200 };
    let req = http1::Request { method: "GET".into(), target: "/probe".into(), v11: true, headers: vec![http1::Hdr { name: "Host".into(), value: "probe.test".into(), ows_before: " ".into(), ows_after: String::new() }, http1::Hdr { name: "User-Agent".into(), value: "Mozilla/5.0 Firefox/3.6".into(), ows_before: " ".into(), ows_after: String::new() }, http1::Hdr { name: "Accept-Language".into(), value: "fr,en;q=0.5".into(), ows_before: " ".into(), ows_after: String::new() }] };
    let resp = http1::Response { v11: true, status: 200, reason: Some("OK".into()), headers: vec![http1::Hdr { name: "Server".into(), value: "nginx/1.18".into(), ows_before: " ".into(), ows_after: String::new() }] };
    let f = |n: &str, v: &str, r| h2::Field { name: n.into(), value: v.as_bytes().to_vec(), repr: r, name_indexed: true, huffman_name: false, huffman_value: true };
    let h2req = crate::props::c16::H2Case { request: true, block: h2::Block { size_updates: vec![], fields: vec![f(":method", "GET", h2::Repr::PreferIndexed), f(":path", "/h2probe", h2::Repr::LiteralIndexed), f(":scheme", "https", h2::Repr::PreferIndexed), f(":authority", "probe.test", h2::Repr::LiteralIndexed), f("user-agent", "probe/2", h2::Repr::LiteralIndexed), f("x-probe", "v", h2::Repr::LiteralIndexed), f("x-probe", "v", h2::Repr::PreferIndexed)] }, framing: h2::HeadersFraming { stream: 1, end_stream: true, pad: None, priority: None, splits: vec![], reserved_bit: false, cont_flags: 0 }, pre: vec![crate::props::c16::PreFrame::Settings(vec![(1, 65536), (4, 131072)])], body: None , hostile_tail: vec![], flag_xor: 0 };
    let h2resp = crate::props::c16::H2Case { request: false, block: h2::Block { size_updates: vec![], fields: vec![f(":status", "200", h2::Repr::PreferIndexed), f("server", "h2srv", h2::Repr::LiteralIndexed)] }, framing: h2::HeadersFraming { stream: 1, end_stream: true, pad: None, priority: None, splits: vec![], reserved_bit: false, cont_flags: 0 }, pre: vec![crate::props::c16::PreFrame::Settings(vec![(3, 100)])], body: None , hostile_tail: vec![], flag_xor: 0 };
    let t = TraceCase {
        conns: vec![mk(0, Script::None, 22), mk(1, Script::Http1 { req, resp, resp_body: b"hello".to_vec() }, 80), mk(2, Script::Http2 { req: h2req, resp: h2resp }, 8080), mk(3, Script::Tls { hello: tls::simple_hello(), after: vec![] }, 443)],
        schedule: vec![],
        link: Link::Ether,
        macs: 0,
        wire: 0,
        frag: 0,
        ipopt: 0,
    };
    // connection after connection (no interleaving needed for a probe)
    t.per_conn().into_iter().flatten().collect()
}

/// results of the probe on fresh instances (reference)
pub fn probe_reference(tag: u8) -> Vec<Vec<Vec<String>>> {
    let pk = probe_trace(tag);
    [Kind::Tcp, Kind::Http, Kind::Tls, Kind::Unified]
        .iter()
        .map(|k| {
            let mut a = Analyzer::new(*k, 64);
            pk.iter().map(|p| a.feed(p)).collect()
        })
        .collect()
}

/// after any inputs the same instances analyse the probe exactly as fresh ones
pub fn probe_check(inst: &mut Instances, tag: u8) -> Result<(), Fail> {
    let pk = probe_trace(tag);
    let reference = probe_reference(tag);
    for (ai, a) in inst.a.iter_mut().enumerate() {
        for (pi, p) in pk.iter().enumerate() {
            let got = catch(|| a.feed(p)).map_err(|e| Fail::new(format!("probe:{}", panic_key(&e)), e))?;
            if got != reference[ai][pi] {
                return Err(fail!(format!("probe-differs-on-used-instance:{:?}", [Kind::Tcp, Kind::Http, Kind::Tls, Kind::Unified][ai]), "probe packet {pi}\nfresh {}\nused  {}", truncate(&format!("{:?}", reference[ai][pi]), 500), truncate(&format!("{:?}", got), 500)));
            }
        }
    }
    drive::set_clock(None);
    Ok(())
}

// ------------------------------------------------------------------------------------------------
// byte-stream / text entry points
// ------------------------------------------------------------------------------------------------
pub fn stream_entry_points(data: &[u8], cuts: &[usize]) -> Result<(), String> {
    let _g = crate::engine::case_guard("stream", data);
    catch(|| {
        // incremental TLS reader + probe on the same reader after reset
        let mut r = huginn_net_tls::tls_client_hello_reader::TlsClientHelloReader::new();
        for c in crate::props::c08::split(data, cuts) {
            let _ = r.add_bytes(&c);
        }
        let _ = huginn_net_tls::tls_process::parse_tls_client_hello(data);
        let _ = huginn_net_tls::tls_process::is_tls_traffic(data);
        // HTTP/2 fingerprint extractor
        let mut e = huginn_net_http::Http2FingerprintExtractor::new();
        for c in crate::props::c08::split(data, cuts) {
            let _ = e.add_bytes(&c);
        }
        let _ = e.get_fingerprint();
        let _ = huginn_net_http::akamai_extractor::extract_akamai_fingerprint_from_bytes(data);
        // HTTP processors
        let p = huginn_net_http::http_process::HttpProcessors::new();
        let _ = p.parse_request(data);
        let _ = p.parse_response(data);
        let hp = huginn_net_http::http2_parser::Http2Parser::new();
        let _ = hp.parse_request(data);
        let _ = hp.parse_response(data);
        let _ = hp.parse_frames(data);
    })
}

/// the HttpProcessors instance and the readers still work after the junk (probe equivalence for the stream APIs)
pub fn stream_probe(junk: &[Vec<u8>]) -> Result<(), Fail> {
    let p = huginn_net_http::http_process::HttpProcessors::new();
    let fresh = huginn_net_http::http_process::HttpProcessors::new();
    for j in junk {
        catch(|| {
            let _ = p.parse_request(j);
            let _ = p.parse_response(j);
        })
        .map_err(|e| Fail::new(panic_key(&e), e))?;
    }
    let probes = probe_trace(9);
    // take the payloads of the probe's data packets as stream probes
    let h1 = b"GET /probe HTTP/1.1\r\nHost: probe.test\r\nUser-Agent: x/1\r\n\r\n".to_vec();
    let conn = &probes;
    let _ = conn;
    let h2req = {
        let f = |n: &str, v: &str, r| h2::Field { name: n.into(), value: v.as_bytes().to_vec(), repr: r, name_indexed: true, huffman_name: false, huffman_value: false };
        crate::props::c16::H2Case { request: true, block: h2::Block { size_updates: vec![], fields: vec![f(":method", "GET", h2::Repr::PreferIndexed), f(":path", "/p", h2::Repr::LiteralIndexed), f("x-a", "b", h2::Repr::LiteralIndexed), f("x-a", "b", h2::Repr::PreferIndexed)] }, framing: h2::HeadersFraming { stream: 1, end_stream: true, pad: None, priority: None, splits: vec![], reserved_bit: false, cont_flags: 0 }, pre: vec![], body: None , hostile_tail: vec![], flag_xor: 0 }.bytes()
    };
    for (name, data) in [("http1", h1), ("http2", h2req)] {
        let a = p.parse_request(&data).map(|o| format!("{:?}", o));
        let b = fresh.parse_request(&data).map(|o| format!("{:?}", o));
        if a != b {
            return Err(fail!(format!("stream-probe-differs:{name}"), "fresh {}\nused  {}", truncate(&format!("{:?}", b), 400), truncate(&format!("{:?}", a), 400)));
        }
    }
    // the incremental readers: junk in chunks, reset(), then a well-formed stream - as a fresh instance would analyse it
    let h2_probe_frames = {
        let mut v = vec![];
        v.extend(h2::settings_frame(&[(3, 128), (4, 65536)], false));
        v.extend(h2::window_update_frame(0, 2147418112, false));
        v.extend(h2::frame(h2::T_HEADERS, 0x05, 1, &[0x82, 0x84, 0x87, 0x41, 0x01, 0x61]));
        v
    };
    let with_preface: Vec<u8> = h2::PREFACE.iter().copied().chain(h2_probe_frames.iter().copied()).collect();
    let hello = tls::simple_hello().record();
    for chunk in [10usize, 4096] {
        // small chunks make the extractors re-scan their buffer on every call: keep that pass short
        let junk: Vec<&[u8]> = junk.iter().map(|j| if chunk < 100 { &j[..j.len().min(300)] } else { &j[..] }).collect();
        for probe in [&with_preface, &h2_probe_frames] {
            let run = |e: &mut huginn_net_http::Http2FingerprintExtractor| -> Result<String, String> {
                catch(|| {
                    let mut out = vec![];
                    for c in probe.chunks(chunk) {
                        out.push(format!("{:?}", e.add_bytes(c).map(|o| o.map(|f| f.fingerprint.clone()))));
                    }
                    out.push(format!("{:?}", e.get_fingerprint().map(|f| f.fingerprint.clone())));
                    out.join(" | ")
                })
            };
            let mut used = huginn_net_http::Http2FingerprintExtractor::new();
            for j in &junk {
                catch(|| {
                    for c in j.chunks(chunk) {
                        let _ = used.add_bytes(c);
                    }
                })
                .map_err(|e| Fail::new(panic_key(&e), e))?;
            }
            catch(|| used.reset()).map_err(|e| Fail::new(panic_key(&e), e))?;
            let a = run(&mut used).map_err(|e| Fail::new(panic_key(&e), e))?;
            let b = run(&mut huginn_net_http::Http2FingerprintExtractor::new()).map_err(|e| Fail::new(panic_key(&e), e))?;
            if a != b {
                return Err(fail!("stream-probe-differs:h2-extractor-after-reset", "chunks of {chunk}: fresh {}\nused  {}", truncate(&b, 300), truncate(&a, 300)));
            }
        }
        let runr = |r: &mut huginn_net_tls::tls_client_hello_reader::TlsClientHelloReader| -> Result<String, String> {
            catch(|| hello.chunks(chunk.max(5)).map(|c| format!("{:?}", r.add_bytes(c).map(|o| o.map(|s| s.generate_ja4().full.value().to_string())).map_err(|e| e.to_string()))).collect::<Vec<_>>().join(" | "))
        };
        let mut used = huginn_net_tls::tls_client_hello_reader::TlsClientHelloReader::new();
        for j in &junk {
            catch(|| {
                for c in j.chunks(chunk) {
                    let _ = used.add_bytes(c);
                }
            })
            .map_err(|e| Fail::new(panic_key(&e), e))?;
        }
        catch(|| used.reset()).map_err(|e| Fail::new(panic_key(&e), e))?;
        let a = runr(&mut used).map_err(|e| Fail::new(panic_key(&e), e))?;
        let b = runr(&mut huginn_net_tls::tls_client_hello_reader::TlsClientHelloReader::new()).map_err(|e| Fail::new(panic_key(&e), e))?;
        if a != b {
            return Err(fail!("stream-probe-differs:tls-reader-after-reset", "chunks of {chunk}: fresh {}\nused  {}", truncate(&b, 300), truncate(&a, 300)));
        }
    }
    Ok(())
}

pub fn text_entry_points(text: &str) -> Result<(), String> {
    let _g = crate::engine::case_guard("text", text.as_bytes());
    catch(|| {
        let _ = Database::from_str(text);
        let _ = huginn_net_db::tcp::Signature::from_str(text);
        let _ = huginn_net_db::http::Signature::from_str(text);
        let _ = huginn_net_db::Label::from_str(text);
        let _ = huginn_net_db::tcp::Ttl::from_str(text);
        let _ = huginn_net_db::tcp::WindowSize::from_str(text);
        let _ = huginn_net_db::tcp::TcpOption::from_str(text);
        let _ = huginn_net_db::tcp::Quirk::from_str(text);
        let _ = huginn_net_db::tcp::IpVersion::from_str(text);
        let _ = huginn_net_db::tcp::PayloadSize::from_str(text);
        let _ = huginn_net_db::http::Header::from_str(text);
        let _ = huginn_net_db::http::Version::from_str(text);
        let _ = huginn_net_db::Type::from_str(text);
        let _ = huginn_net_http::http_languages::get_highest_quality_language(text.to_string());
    })
}

#[derive(Clone, Debug, Serialize, Deserialize, Hash)]
pub enum Havoc {
    SetByte(u16, u8),
    Truncate(u16),
    FlipBit(u16, u8),
    Ihl(u8),
    Doff(u8),
    TotalLen(u16),
    Proto(u8),
    VersionNibble(u8),
    Append(Vec<u8>),
}

#[derive(Clone, Debug, Serialize, Deserialize, Hash)]
pub struct HistCase {
    pub base: Vec<TcpCase>,
    pub payloads: Vec<u8>,
    pub havoc: Vec<(u8, Havoc)>,
}

fn payload_of(k: u8) -> Vec<u8> {
    match k % 6 {
        0 => vec![],
        1 => b"GET /x HTTP/1.1\r\nHost: a\r\nUser-Agent: b\r\n\r\n".to_vec(),
        2 => tls::simple_hello().record(),
        3 => {
            let mut v = h2::PREFACE.to_vec();
            v.extend(h2::settings_frame(&[(1, 4096), (3, 100)], false));
            v.extend(h2::frame(h2::T_HEADERS, 0x25, 1, &[0, 0, 0, 0, 200, 0x82, 0x84, 0x86]));
            v
        }
        4 => b"HTTP/1.1 200 OK\r\nServer: s\r\n\r\nbody".to_vec(),
        _ => vec![0x16, 3, 1, 0xff, 0xff, 1, 0, 0xff, 0xfb, 3, 3],
    }
}

pub fn apply_havoc(f: &mut Vec<u8>, link: Link, h: &Havoc) {
    let off = match link {
        Link::Ether => 14,
        Link::Raw => 0,
        Link::Null => 4,
    };
    let n = f.len();
    match h {
        Havoc::SetByte(p, v) => {
            if n > 0 {
                let i = idx(*p, n);
                f[i] = *v;
            }
        }
        Havoc::Truncate(p) => f.truncate(idx(*p, n + 1)),
        Havoc::FlipBit(p, b) => {
            if n > 0 {
                let i = idx(*p, n);
                f[i] ^= 1 << (b % 8);
            }
        }
        Havoc::Ihl(v) => {
            if n > off {
                f[off] = (f[off] & 0xf0) | (v & 0x0f);
            }
        }
        Havoc::Doff(v) => {
            // IPv4 without options: TCP data offset at ip+20+12
            if n > off + 32 {
                f[off + 32] = (v << 4) | (f[off + 32] & 0x0f);
            }
            if n > off + 52 {
                f[off + 52] = (v << 4) | (f[off + 52] & 0x0f);
            }
        }
        Havoc::TotalLen(v) => {
            if n > off + 5 {
                f[off + 2] = (*v >> 8) as u8;
                f[off + 3] = *v as u8;
                f[off + 4] = (*v >> 8) as u8;
                f[off + 5] = *v as u8;
            }
        }
        Havoc::Proto(v) => {
            if n > off + 9 {
                f[off + 9] = *v;
                f[off + 6] = *v;
            }
        }
        Havoc::VersionNibble(v) => {
            if n > off {
                f[off] = (v << 4) | (f[off] & 0x0f);
            }
        }
        Havoc::Append(d) => f.extend_from_slice(d),
    }
}

pub fn hist_frames(c: &HistCase) -> Vec<Vec<u8>> {
    let mut frames: Vec<(Vec<u8>, Link)> = c
        .base
        .iter()
        .enumerate()
        .map(|(i, b)| {
            let mut b = b.clone();
            b.tcp.payload = payload_of(c.payloads.get(i).copied().unwrap_or(0));
            (b.frame(), b.link)
        })
        .collect();
    for (which, h) in &c.havoc {
        if frames.is_empty() {
            break;
        }
        let i = *which as usize % frames.len();
        let l = frames[i].1;
        apply_havoc(&mut frames[i].0, l, h);
    }
    frames.into_iter().map(|(f, _)| f).collect()
}

pub fn havoc() -> impl Strategy<Value = Havoc> {
    prop_oneof![
        3 => (any::<u16>(), any::<u8>()).prop_map(|(p, v)| Havoc::SetByte(p, v)),
        2 => any::<u16>().prop_map(Havoc::Truncate),
        3 => (any::<u16>(), 0u8..8).prop_map(|(p, b)| Havoc::FlipBit(p, b)),
        2 => (0u8..16).prop_map(Havoc::Ihl),
        2 => (0u8..16).prop_map(Havoc::Doff),
        1 => prop_oneof![Just(0u16), Just(20u16), Just(39u16), Just(65535u16), any::<u16>()].prop_map(Havoc::TotalLen),
        1 => prop_oneof![Just(6u8), Just(17u8), Just(0u8), Just(44u8), Just(43u8), any::<u8>()].prop_map(Havoc::Proto),
        1 => (0u8..16).prop_map(Havoc::VersionNibble),
        1 => proptest::collection::vec(any::<u8>(), 1..40).prop_map(Havoc::Append),
    ]
}

pub fn check_history(c: &HistCase, st: &mut Stats) -> Result<(), Fail> {
    let frames = hist_frames(c);
    let mut inst = Instances::new();
    for (i, f) in frames.iter().enumerate() {
        if let Err(e) = stateless_frame_entry_points(f) {
            return Err(Fail::new(panic_key(&e), format!("{e} | frame {}", hex(f))));
        }
        if let Err(e) = inst.feed_all(f, 1_000_000 + i as u64 * 50) {
            return Err(Fail::new(panic_key(&e), format!("{e} | frame {}", hex(f))));
        }
    }
    let _ = st;
    probe_check(&mut inst, 1)
}

pub fn run(ctx: &Ctx) {
    ctx.assume("termination: every frame / stream / text handed to an entry point is announced to a case registry; when a case has not returned after 30 s, or resident memory passes 6 GB while a case is in flight, the input is saved and re-executed ALONE under RLIMIT_CPU 120 s and RLIMIT_AS 8 GB (normal cost: milliseconds, megabytes): killed or aborted there = violation (CPU time of an isolated run, never wall-clock), passing there = inconclusive (exit 2); the plain no-progress watchdog stays inconclusive; panics are caught per case with overflow checks and debug assertions enabled in the harness build of /repo's crates");
    ctx.assume("probe equivalence compares canonical renderings of every probe result on the used instance with those of a fresh instance (clock injected through hook H1)");
    // (1) every (kind, length, position) encoding of one TCP option
    let bases: Vec<(bool, u8, bool)> = vec![(true, fr::SYN, false), (false, fr::SYN, false), (true, fr::SYN | fr::ACK, false), (true, fr::ACK | fr::PSH, true)];
    let fills: [u8; 3] = [1, 0, 0xff];
    // one block = one (base, fill, kind, position); inside the block all 256 length bytes
    let total = bases.len() as u64 * 3 * 256 * 40 * 256;
    ctx.run_indexed(
        "tcp-option-encodings-exhaustive",
        "every (kind 0..255, length byte 0..255, position 0..39) of one option written into a 40-byte option area pre-filled with NOPs / zeros / 0xff, for {IPv4 SYN, IPv6 SYN, IPv4 SYN+ACK, IPv4 ACK+data}: 31 M packets through the TCP analyzer (reused instance per block) and a sample through the unified analyzer; then the probe trace on the used instances; non-trivial: every packet (the option area differs from every valid capture)",
        true,
        total / 256,
        |blk, st| {
            // one block = 256 length bytes for a fixed (base, fill, kind, position)
            let mut k = blk;
            let pos = (k % 40) as usize;
            k /= 40;
            let kind = (k % 256) as u8;
            k /= 256;
            let fill = fills[(k % 3) as usize];
            k /= 3;
            let (v4, flags, data) = bases[k as usize % bases.len()];
            let ip = if v4 { Ip::V4(Ip4::default()) } else { Ip::V6(Ip6::default()) };
            let mut tcp = Tcp { flags, ack: if flags & fr::ACK != 0 { 5 } else { 0 }, options: vec![fill; 40], payload: if data { b"GET / HTTP/1.1\r\n\r\n".to_vec() } else { vec![] }, ..Tcp::default() };
            let mut tracker: drive::TcpTracker = ttl_cache::TtlCache::new(16);
            let optoff = 14 + if v4 { 20 } else { 40 } + 20;
            tcp.options[pos] = kind;
            let mut f = frame(Link::Ether, &ip, &tcp);
            for len in 0..=255u8 {
                if pos + 1 < 40 {
                    f[optoff + pos + 1] = len;
                } else if len > 0 {
                    break;
                }
                st.evals += 1;
                drive::set_clock(Some(1_000_000 + len as u64));
                let _g = crate::engine::case_guard("frame", &f);
                if let Err(e) = catch(|| {
                    let _ = drive::tcp_packet(&f, &mut tracker, false);
                }) {
                    st.fail(Fail::new(panic_key(&e), format!("{e} | kind {kind} len {len} pos {pos} fill {fill:#x} | frame {}", hex(&f))), json!({"frame": hex(&f)}));
                    return;
                }
            }
            st.nontrivial(&(blk, 0u8));
            if blk % 4099 == 0 {
                // the unified analyzer and the stateless entry points on a sample, plus the probe on the used tracker
                let mut inst = Instances::new();
                if let Err(e) = stateless_frame_entry_points(&f).and_then(|_| inst.feed_all(&f, 1_000_000)) {
                    st.fail(Fail::new(panic_key(&e), format!("{e} | frame {}", hex(&f))), json!({"frame": hex(&f)}));
                    return;
                }
                if let Err(fl) = probe_check(&mut inst, 2) {
                    st.fail(fl, json!({"frame": hex(&f)}));
                }
                st.sample(|| json!({"kind": kind, "position": pos, "fill": fill, "frame": hex(&f)}));
            }
        },
    );
    // (2) truncations and single-bit flips of the bundled captures and of synthesised packets
    let mut seeds = capture_packets();
    let n_cap = seeds.len();
    for v4 in [true, false] {
        for link in [Link::Ether, Link::Raw, Link::Null] {
            for k in 0..6u8 {
                let ip = if v4 { Ip::V4(Ip4 { ihl: 5 + (k % 3), options: vec![1; (k % 3) as usize * 4], ..Ip4::default() }) } else { Ip::V6(Ip6::default()) };
                let tcp = Tcp { flags: if k == 0 { fr::SYN } else { fr::ACK | fr::PSH }, ack: 1, options: crate::model::tcp::encode_opts(&[crate::model::tcp::OptItem::Mss(1460), crate::model::tcp::OptItem::Sok, crate::model::tcp::OptItem::Ts(1, 0), crate::model::tcp::OptItem::Nop, crate::model::tcp::OptItem::Ws(7)]), payload: payload_of(k), ..Tcp::default() };
                seeds.push(frame(link, &ip, &tcp));
            }
        }
    }
    let ns = seeds.len() as u64;
    ctx.run_indexed(
        "truncations-and-bit-flips",
        "every truncation length and every single-bit flip in the first 160 bytes of every packet of the four bundled captures and of 36 synthesised valid packets (Ethernet / raw / loopback, IPv4 with IHL 5..7 / IPv6, HTTP/1, HTTP/2, TLS payloads), each through all four analyzers on a per-seed instance plus filters, hashers and format sniffers; then the probe trace; non-trivial: the mutated frame still reaches a protocol parser (IP decoded and TCP header present)",
        true,
        ns,
        |i, st| {
            let seed = &seeds[i as usize];
            let mut inst = Instances::new();
            let mut run_one = |f: &[u8], st: &mut Stats| -> bool {
                st.evals += 1;
                if crate::props::c15::decoded_endpoints(f).is_some() {
                    st.nontrivial(&f);
                }
                if let Err(e) = stateless_frame_entry_points(f).and_then(|_| inst.feed_all(f, 1_000_000)) {
                    st.fail(Fail::new(panic_key(&e), format!("{e} | frame {}", hex(f))), json!({"frame": hex(f)}));
                    return false;
                }
                true
            };
            for t in 0..=seed.len() {
                if !run_one(&seed[..t], st) {
                    return;
                }
            }
            for bit in 0..(seed.len().min(160) * 8) {
                let mut f = seed.clone();
                f[bit / 8] ^= 1 << (bit % 8);
                if !run_one(&f, st) {
                    return;
                }
            }
            if let Err(fl) = probe_check(&mut inst, 3) {
                st.fail(fl, json!({"seed_packet": hex(seed)}));
            }
            if (i as usize) < n_cap {
                st.class("seed:bundled-capture");
            } else {
                st.class("seed:synthesised");
            }
            st.sample(|| json!({"seed_len": seed.len(), "seed": hex(&seed[..seed.len().min(60)])}));
        },
    );
    // (3)+(5) structure-aware havoc histories followed by the probe
    let n = ctx.tier.pick(60_000, 1_000_000);
    ctx.run_prop(
        "havoc-histories-then-probe",
        "proptest histories of 1..20 generated valid frames (all links, IHL 5..15, IPv6, option grammar, HTTP/1 / HTTP/2 / TLS / huge-record payloads) with 0..12 field-wise mutations (IHL, data offset, total/payload length, protocol / next header, version nibble, byte set, bit flip, truncation, trailing bytes) through all four analyzers on ONE instance each plus filters / hashers; then the valid probe trace (TCP handshake with timestamps, HTTP/1 GET + 200, HTTP/2 request with dynamic-table reference, ClientHello) must be analysed exactly as on fresh instances; non-trivial: >= 1 mutated frame still reaches a protocol parser",
        n,
        || (proptest::collection::vec(strat::tcp_case(false), 1..20), proptest::collection::vec(any::<u8>(), 20), proptest::collection::vec((any::<u8>(), havoc()), 0..12)).prop_map(|(base, payloads, havoc)| HistCase { base, payloads, havoc }),
        |c: &HistCase, st: &mut Stats| {
            let fr = hist_frames(c);
            if !c.havoc.is_empty() && fr.iter().any(|f| crate::props::c15::decoded_endpoints(f).is_some()) {
                st.nontrivial(c);
            }
            st.sample(|| json!({"frames": fr.len(), "havoc": format!("{:?}", c.havoc).chars().take(200).collect::<String>(), "first": hex(&fr[0][..fr[0].len().min(60)])}));
            check_history(c, st)
        },
    );
    // (4) byte streams: mutated golden inputs and random bytes, delivered in chunks
    let golden: Vec<Vec<u8>> = {
        let mut g: Vec<Vec<u8>> = (0..6u8).map(payload_of).collect();
        for p in capture_packets() {
            if p.len() > 80 {
                g.push(p[54.min(p.len())..].to_vec());
            }
        }
        g
    };
    let ng = golden.len();
    let n = ctx.tier.pick(600_000, 10_000_000);
    ctx.run_prop(
        "byte-streams",
        "golden streams (ClientHello record, HTTP/1 request / response, HTTP/2 preface + SETTINGS + padded/priority HEADERS, huge-length record, TCP payloads cut from the bundled captures) with 0..8 byte-level mutations, and arbitrary byte strings, delivered in generated chunks to TlsClientHelloReader::add_bytes, Http2FingerprintExtractor::add_bytes, extract_akamai_fingerprint_from_bytes, HttpProcessors::parse_request/parse_response, Http2Parser; non-trivial: every mutated golden stream",
        n,
        move || (0usize..ng + 2, proptest::collection::vec((any::<u16>(), any::<u8>(), 0u8..4), 0..8), proptest::collection::vec(any::<u8>(), 0..300), proptest::collection::vec(any::<u16>(), 0..5)),
        |(gi, muts, random, cuts): &(usize, Vec<(u16, u8, u8)>, Vec<u8>, Vec<u16>), st: &mut Stats| {
            let mut data = if *gi < golden.len() { golden[*gi].clone() } else { random.clone() };
            for (p, v, how) in muts {
                if data.is_empty() {
                    break;
                }
                let i = idx(*p, data.len());
                match how {
                    0 => data[i] = *v,
                    1 => data[i] ^= 1 << (v % 8),
                    2 => data.truncate(i),
                    _ => data.insert(i, *v),
                }
            }
            if *gi < golden.len() && !muts.is_empty() {
                st.nontrivial(&data);
            }
            st.sample(|| json!({"stream": hex(&data[..data.len().min(80)])}));
            let cp = crate::props::c08::cut_positions(cuts, data.len());
            stream_entry_points(&data, &cp).map_err(|e| Fail::new(panic_key(&e), format!("{e} | stream {}", truncate(&hex(&data), 800))))
        },
    );
    // stream-level probe equivalence (the HTTP processors hold an HPACK decoder)
    let n = ctx.tier.pick(20_000, 400_000);
    ctx.run_prop(
        "stream-histories-then-probe",
        "1..6 generated HTTP/2 requests (incl. dynamic-table size update 0, large tables, indexed references) and mutated golden streams fed to ONE HttpProcessors instance, then a probe HTTP/1 request and a probe HTTP/2 request that inserts into and reads from the dynamic table: identical to a fresh instance; non-trivial: every history",
        n,
        || proptest::collection::vec(prop_oneof![2 => crate::props::c16::h2_case().prop_map(|c| c.bytes()), 1 => proptest::collection::vec(any::<u8>(), 0..120).prop_map(|mut v| { let mut p = h2::PREFACE.to_vec(); p.append(&mut v); p })], 1..6),
        |junk: &Vec<Vec<u8>>, st: &mut Stats| {
            st.nontrivial(junk);
            st.sample(|| json!({"streams": junk.len(), "first": hex(&junk[0][..junk[0].len().min(60)])}));
            stream_probe(junk)
        },
    );
    // (4b) database text and every FromStr of the db crate
    let p0f = std::fs::read_to_string(crate::props::c06::P0F_PATH).unwrap_or_default();
    let lines: Vec<String> = p0f.lines().map(|l| l.to_string()).collect();
    let nl = lines.len();
    let n = ctx.tier.pick(300_000, 5_000_000);
    ctx.run_prop(
        "database-text",
        "lines of the bundled p0f.fp with 0..6 character-level mutations (digits pushed out of range, separators dropped or doubled, non-ASCII inserted), windows of 1..40 such lines as database texts, and arbitrary strings, through Database::from_str and every FromStr of the db crate; non-trivial: every mutated line",
        n,
        move || (0usize..nl.max(1), 1usize..40, proptest::collection::vec((any::<u16>(), prop_oneof![Just('9'), Just(':'), Just(','), Just('*'), Just('+'), Just('?'), Just('['), Just(']'), Just('='), Just('é'), Just('\u{0}'), any::<char>()], 0u8..3), 0..6), ".{0,60}"),
        |(start, len, muts, free): &(usize, usize, Vec<(u16, char, u8)>, String), st: &mut Stats| {
            let window: Vec<String> = lines.iter().skip(*start).take(*len).cloned().collect();
            let mut first: Vec<char> = window.first().cloned().unwrap_or_default().chars().collect();
            for (p, ch, how) in muts {
                if first.is_empty() {
                    first.push(*ch);
                    continue;
                }
                let i = idx(*p, first.len());
                match how {
                    0 => first[i] = *ch,
                    1 => first.insert(i, *ch),
                    _ => {
                        first.remove(i);
                    }
                }
            }
            let line: String = first.iter().collect();
            let value = line.split_once('=').map(|(_, v)| v.trim().to_string()).unwrap_or_else(|| line.clone());
            if !muts.is_empty() {
                st.nontrivial(&line);
            }
            st.sample(|| json!({"line": line}));
            let mut text = String::from("[tcp:request]\nlabel = s:unix:X:\n");
            text.push_str(&line);
            text.push('\n');
            text.push_str(&window.join("\n"));
            for t in [text.as_str(), line.as_str(), value.as_str(), free.as_str()] {
                text_entry_points(t).map_err(|e| Fail::new(panic_key(&e), format!("{e} | text {:?}", truncate(t, 300))))?;
            }
            Ok(())
        },
    );
    // (6) worker pools: junk dispatch, then the probe must still be answered
    ctx.shrink_iters.store(10, std::sync::atomic::Ordering::Relaxed);
    let n = ctx.tier.pick(2_000, 30_000);
    ctx.run_prop(
        "pools-stay-alive",
        "havoc histories dispatched to the TCP / HTTP / TLS worker pools (1..4 workers), followed by the probe trace: every worker thread survives (all probe results arrive and equal the sequential ones) and dispatch never panics; non-trivial: every run",
        n,
        || ((proptest::collection::vec(strat::tcp_case(false), 1..12), proptest::collection::vec(any::<u8>(), 12), proptest::collection::vec((any::<u8>(), havoc()), 0..10)).prop_map(|(base, payloads, havoc)| HistCase { base, payloads, havoc }), 0u8..3, 1u8..5),
        |(c, kind, workers): &(HistCase, u8, u8), st: &mut Stats| {
            st.nontrivial(c);
            let kind = [PoolKind::Tcp, PoolKind::Http, PoolKind::Tls][(*kind % 3) as usize];
            let probe = probe_trace(4);
            let mut frames = hist_frames(c);
            let njunk = frames.len();
            frames.extend(probe.iter().map(|p| p.frame.clone()));
            let mut clock = std::collections::HashMap::new();
            for p in &probe {
                if let Some(v) = p.tsval {
                    clock.insert(v, p.at);
                }
            }
            let cfg = PoolCfg { workers: *workers as usize, queue: frames.len() + 8, batch: 8, timeout_ms: 3, dispatchers: 1, perturb: None, max_sleep_us: 0, max_conn: 1000 };
            let run = match catch(|| run_pool(kind, &frames, &cfg, None, Some(clock))) {
                Ok(Ok(r)) => r,
                Ok(Err(e)) => return Err(fail!("pool:new", "{e}")),
                Err(e) => return Err(Fail::new(format!("dispatch-{}", panic_key(&e)), e)),
            };
            st.sample(|| json!({"pool": format!("{:?}", kind), "workers": workers, "junk_frames": njunk}));
            if let Some(p) = &run.worker_panic {
                return Err(Fail::new(format!("{:?}:worker-{}", kind, panic_key(p)), format!("a worker thread panicked: {p}")));
            }
            if run.drain_timeout {
                st.class("drain-timeout(inconclusive)");
                return Ok(());
            }
            // every probe frame that was queued must have been analysed (its worker is still alive)
            let analysed: std::collections::BTreeSet<u64> = run.analysed.iter().map(|(_, h)| *h).collect();
            for (i, p) in probe.iter().enumerate() {
                if run.queued[njunk + i] && !analysed.contains(&crate::engine::fnv64(&p.frame)) {
                    return Err(fail!(format!("{:?}:worker-died-probe-packet-not-analysed", kind), "probe packet {i} after {njunk} junk frames; {} of {} frames analysed", run.analysed.len(), frames.len()));
                }
            }
            // and the probe results equal the sequential ones (the junk cannot have poisoned the workers)
            let seq_probe = crate::props::c10::sequential(kind, &probe);
            for r in &seq_probe {
                if !run.results.contains(r) {
                    return Err(fail!(format!("{:?}:probe-result-missing-after-junk", kind), "{}", truncate(&r.1, 300)));
                }
            }
            Ok(())
        },
    );
    let _ = (SplitMix(0), trace::addr4(0));
    // (7) coverage-guided campaigns (thorough tier only)
    if ctx.tier == crate::engine::Tier::Thorough {
        let frames_seeds: Vec<Vec<u8>> = capture_packets().into_iter().chain(probe_trace(6).into_iter().map(|p| p.frame)).collect();
        let stream_seeds: Vec<Vec<u8>> = (0..6u8).map(|k| { let mut v = vec![0x40, 0x90]; v.extend(payload_of(k)); v }).collect();
        let text_seeds: Vec<Vec<u8>> = std::fs::read_to_string(crate::props::c06::P0F_PATH).unwrap_or_default().lines().filter(|l| l.starts_with("sig") || l.starts_with("label") || l.starts_with('[')).take(400).map(|l| l.as_bytes().to_vec()).collect();
        for (target, seeds) in [("frames", frames_seeds), ("streams", stream_seeds), ("db_text", text_seeds)] {
            ctx.fuzz_campaign(target, "seeded", &seeds, 1_500_000, 420);
            ctx.fuzz_campaign(target, "empty", &[], 1_000_000, 300);
        }
    }
}

pub fn replay(_ctx: &Ctx, sub: &str, input: &serde_json::Value) -> Result<(), Fail> {
    let mut st = Stats::new();
    if let Some(fh) = input.get("frame").and_then(|f| f.as_str()) {
        let f = crate::engine::unhex(fh);
        let mut inst = Instances::new();
        stateless_frame_entry_points(&f).and_then(|_| inst.feed_all(&f, 1_000_000)).map_err(|e| Fail::new(panic_key(&e), e))?;
        return probe_check(&mut inst, 2);
    }
    if sub == "isolated-input" {
        // an input the hang / runaway-memory detector saved: every entry point of its kind, on fresh instances
        let bytes = crate::engine::unhex(input["hex"].as_str().unwrap_or(""));
        return match input["tag"].as_str().unwrap_or("") {
            "frame" => {
                let mut inst = Instances::new();
                stateless_frame_entry_points(&bytes).and_then(|_| inst.feed_all(&bytes, 1_000_000)).map_err(|e| Fail::new(panic_key(&e), e))
            }
            "stream" => stream_entry_points(&bytes, &[]).map_err(|e| Fail::new(panic_key(&e), e)),
            "text" => text_entry_points(&String::from_utf8_lossy(&bytes)).map_err(|e| Fail::new(panic_key(&e), e)),
            other => Err(fail!("bad-replay", "unknown input kind {other}")),
        };
    }
    match sub {
        "havoc-histories-then-probe" => check_history(&serde_json::from_value(input["value"].clone()).map_err(|e| fail!("bad-replay", "{e}"))?, &mut st),
        "http-heads-from-hostile-tokens" => check_hostile(&serde_json::from_value(input["value"].clone()).map_err(|e| fail!("bad-replay", "{e}"))?, &mut st),
        "tls-hello-after-complete-records-same-connection" => check_same_flow(&serde_json::from_value(input["value"].clone()).map_err(|e| fail!("bad-replay", "{e}"))?, &mut st),
        "stream-histories-then-probe" => stream_probe(&serde_json::from_value::<Vec<Vec<u8>>>(input["value"].clone()).map_err(|e| fail!("bad-replay", "{e}"))?),
        _ => Err(fail!("bad-replay", "sub {sub}: re-run the check with the same VERIF_SEED (the failing input is printed in the detail)")),
    }
}

// ------------------------------------------------------------------------------------------------
// libFuzzer entry points (thorough tier): panics propagate as crashes, the semantic oracle is inside
// ------------------------------------------------------------------------------------------------
pub fn fuzz_frame(data: &[u8]) {
    if data.len() > 65535 {
        return;
    }
    let mut inst = Instances::new();
    stateless_frame_entry_points(data).expect("stateless entry point panicked");
    inst.feed_all(data, 1_000_000).expect("analyzer panicked");
    if let Err(f) = probe_check(&mut inst, 5) {
        panic!("probe equivalence violated: {} :: {}", f.what, f.detail);
    }
}
pub fn fuzz_stream(data: &[u8]) {
    if data.len() < 2 {
        return;
    }
    let cuts: Vec<u16> = data[..2.min(data.len())].iter().map(|b| (*b as u16) << 8).collect();
    let body = &data[2..];
    let cp = crate::props::c08::cut_positions(&cuts, body.len());
    stream_entry_points(body, &cp).expect("stream entry point panicked");
    if let Err(f) = stream_probe(&[body.to_vec()]) {
        panic!("stream probe violated: {} :: {}", f.what, f.detail);
    }
}
pub fn fuzz_text(s: &str) {
    text_entry_points(s).expect("text entry point panicked");
}

// ------------------------------------------------------------------------------------------------
// TLS: complete records of any kind, then a well-formed ClientHello in the next segment of the SAME connection
// ------------------------------------------------------------------------------------------------
#[derive(Clone, Debug, serde::Serialize, serde::Deserialize, Hash)]
pub struct SameFlowCase {
    pub hello: crate::gen::tls::Hello,
    /// earlier segments, each holding complete TLS records only: (kind selector, mutation offsets / values)
    pub earlier: Vec<(u8, Vec<(u16, u8)>)>,
    pub probe: crate::gen::tls::Hello,
    pub v4: bool,
}

fn same_flow_segment(c: &SameFlowCase, kind: u8, muts: &[(u16, u8)]) -> Vec<u8> {
    let others = crate::props::c08::non_client_hello_records();
    match kind % 4 {
        // a ClientHello record whose body is corrupted while its record length stays right (complete, usually unparsable)
        0 | 1 => {
            let mut r = c.hello.record();
            let n = r.len();
            for (off, val) in muts {
                if n > 9 {
                    let i = 9 + crate::engine::idx(*off, n - 9);
                    r[i] = *val;
                }
            }
            r
        }
        // a handshake record of type ClientHello with an arbitrary body
        2 => {
            let body: Vec<u8> = muts.iter().flat_map(|(a, b)| [(*a >> 8) as u8, *a as u8, *b]).collect();
            let mut hs = vec![0x01, 0, (body.len() >> 8) as u8, body.len() as u8];
            hs.extend(body);
            let mut r = vec![0x16, 0x03, 0x01, (hs.len() >> 8) as u8, hs.len() as u8];
            r.extend(hs);
            r
        }
        // a complete non-ClientHello HANDSHAKE record (after a record of another content type the reader stays silent for the
        // rest of the stream - C08 - so "a following well-formed input" is only defined behind handshake records)
        _ => {
            let hs: Vec<&(&'static str, Vec<u8>)> = others.iter().filter(|(_, r)| r[0] == 0x16).collect();
            hs[muts.first().map(|m| m.0 as usize).unwrap_or(0) % hs.len()].1.clone()
        }
    }
}

pub fn check_same_flow(c: &SameFlowCase, st: &mut Stats) -> Result<(), Fail> {
    use crate::props::c08::{mk_ip, seg_frames, tls_feed};
    if !c.hello.fits() || !c.probe.fits() || c.hello.record().len() > 9000 || c.probe.record().len() > 9000 {
        st.discards += 1;
        return Ok(());
    }
    let ip = mk_ip(c.v4);
    let probe = c.probe.record();
    // reference: the probe alone on a fresh instance
    let mut fresh = ttl_cache::TtlCache::new(8);
    let alone: Vec<String> = seg_frames(&ip, 40002, 443, 9000, &[probe.clone()]).iter().filter_map(|f| tls_feed(f, &mut fresh).ok().flatten()).map(|o| crate::drive::tls_out_str(&o)).collect();
    if alone.len() != 1 {
        return Ok(()); // the probe itself is not reported (e.g. > 2^14 fragment): nothing to compare
    }
    let mut segs: Vec<Vec<u8>> = c.earlier.iter().map(|(k, m)| same_flow_segment(c, *k, m)).collect();
    let unparsable = segs.iter().filter(|s| s[0] == 0x16 && !matches!(huginn_net_tls::tls_process::parse_tls_client_hello(s), Ok(Some(_)))).count();
    if unparsable > 0 {
        st.nontrivial(c);
        st.class("earlier-segment:complete-handshake-record-that-is-not-a-parsable-hello");
    }
    segs.push(probe);
    let frames = seg_frames(&ip, 40002, 443, 77, &segs);
    let mut flows = ttl_cache::TtlCache::new(8);
    let mut last: Option<String> = None;
    for (i, f) in frames.iter().enumerate() {
        let r = crate::engine::catch(|| tls_feed(f, &mut flows)).map_err(|p| Fail::new(crate::engine::panic_key(&p), p))?;
        if i + 1 == frames.len() {
            last = r.ok().flatten().map(|o| crate::drive::tls_out_str(&o));
        }
    }
    if last.as_ref() != Some(&alone[0]) {
        return Err(fail!("tls:well-formed-hello-after-complete-records-not-analysed-as-by-a-fresh-instance", "earlier segments {:?}
expected {}
got      {:?}", segs[..segs.len() - 1].iter().map(|s| crate::engine::truncate(&hex(s), 80)).collect::<Vec<_>>(), alone[0], last));
    }
    Ok(())
}

pub fn run_same_flow(ctx: &Ctx) {
    let n = ctx.tier.pick(40_000, 1_000_000);
    ctx.run_prop(
        "tls-hello-after-complete-records-same-connection",
        "1..3 earlier segments on one connection, each a COMPLETE TLS record (a ClientHello record with 1..6 corrupted body bytes and an intact record length, a ClientHello-type handshake record with an arbitrary body, or a non-ClientHello handshake record), then a well-formed ClientHello in the next segment of the same connection; oracle: that hello is analysed exactly as by a fresh instance; non-trivial: an earlier segment is a complete handshake record that is not a parsable ClientHello",
        n,
        || (crate::gen::tls::hello(), proptest::collection::vec((any::<u8>(), proptest::collection::vec((any::<u16>(), any::<u8>()), 1..7)), 1..4), crate::gen::tls::hello(), any::<bool>()).prop_map(|(hello, earlier, probe, v4)| SameFlowCase { hello, earlier, probe, v4 }),
        |c: &SameFlowCase, st: &mut Stats| {
            st.sample(|| json!({"earlier_kinds": c.earlier.iter().map(|e| e.0 % 4).collect::<Vec<_>>(), "v4": c.v4}));
            check_same_flow(c, st)
        },
    );
}

// ------------------------------------------------------------------------------------------------
// HTTP heads assembled from a token dictionary with hostile numerics / separators in every parsed position
// ------------------------------------------------------------------------------------------------
#[derive(Clone, Debug, serde::Serialize, serde::Deserialize, Hash)]
pub struct HostileHead {
    pub request: bool,
    pub h2: bool,
    pub start: (u8, u8, u8),
    /// (header selector, value tokens)
    pub headers: Vec<(u8, Vec<(u8, u8, u8)>)>,
    pub eol: u8,
    pub cuts: Vec<u16>,
}

const HH_METHODS: [&str; 8] = ["GET", "POST", "HEAD", "OPTIONS", "get", "G", "", "PROPFIND"];
const HH_TARGETS: [&str; 6] = ["/", "*", "/a?b=c&d", "http://h.test/p", "", "/\u{e9}"];
const HH_VERSIONS: [&str; 10] = ["HTTP/1.1", "HTTP/1.0", "HTTP/2.0", "HTTP/1.10", "HTTP/", "HTTP/1.", "http/1.1", "HTTP/99999999999999999999.1", "HTTP/1.1 ", "HTTP/1.x"];
const HH_STATUS: [&str; 9] = ["200", "099", "1000", "-1", "2e2", "", "99999999999999999999", "NaN", " 200"];
const HH_NAMES: [&str; 12] = ["Accept-Language", "accept-language", "Cookie", "Content-Length", "Host", "User-Agent", "Server", "Accept", "Referer", "Date", "Connection", "Accept-Encoding"];
const HH_LANGS: [&str; 10] = ["en", "en-US", "fr", "de-CH", "*", "", "zz", "fil", "EN", "e n"];
const HH_NUMS: [&str; 24] = ["0.5", "1", "0", "1.000", "nan", "NaN", "-nan", "inf", "-inf", "infinity", "1e39", "1e-50", "-1", "+0.5", "0x1p3", "", ".", "1.", ".5", "000000000.5", "0.123456789012345678901234567890", "\u{ff11}", "q", "18446744073709551616"];
const HH_SEPS: [&str; 8] = [",", ", ", ";", " ; ", ";q=", "; q =", "=", ";;"];

fn hostile_value(toks: &[(u8, u8, u8)]) -> String {
    let mut v = String::new();
    for (a, b, c) in toks {
        v.push_str(HH_LANGS[*a as usize % HH_LANGS.len()]);
        v.push_str(HH_SEPS[*b as usize % HH_SEPS.len()]);
        v.push_str(HH_NUMS[*c as usize % HH_NUMS.len()]);
        v.push_str(if b % 3 == 0 { "," } else { ", " });
    }
    v
}

pub fn hostile_bytes(c: &HostileHead) -> Vec<u8> {
    let hdrs: Vec<(String, String)> = c.headers.iter().map(|(n, t)| (HH_NAMES[*n as usize % HH_NAMES.len()].to_string(), hostile_value(t))).collect();
    if c.h2 {
        let f = |n: &str, v: &str| h2::Field { name: n.to_ascii_lowercase(), value: v.as_bytes().to_vec(), repr: h2::Repr::LiteralNotIndexed, name_indexed: false, huffman_name: false, huffman_value: false };
        let mut fields = if c.request { vec![f(":method", HH_METHODS[c.start.0 as usize % 8]), f(":path", HH_TARGETS[c.start.1 as usize % 6]), f(":scheme", "https"), f(":authority", "h.test")] } else { vec![f(":status", HH_STATUS[c.start.2 as usize % 9])] };
        fields.extend(hdrs.iter().map(|(n, v)| f(n, v)));
        return crate::props::c16::H2Case { request: c.request, block: h2::Block { size_updates: vec![], fields }, framing: h2::HeadersFraming { stream: 1, end_stream: true, pad: None, priority: None, splits: vec![], reserved_bit: false, cont_flags: 0 }, pre: vec![], body: None, hostile_tail: vec![], flag_xor: 0 }.bytes();
    }
    let eol = ["\r\n", "\n", "\r\n ", "\r"][c.eol as usize % 4];
    let mut s = if c.request { format!("{} {} {}{eol}", HH_METHODS[c.start.0 as usize % 8], HH_TARGETS[c.start.1 as usize % 6], HH_VERSIONS[c.start.2 as usize % 10]) } else { format!("{} {} OK{eol}", HH_VERSIONS[c.start.0 as usize % 10], HH_STATUS[c.start.2 as usize % 9]) };
    for (n, v) in &hdrs {
        s.push_str(&format!("{n}: {v}{eol}"));
    }
    s.push_str(eol);
    s.into_bytes()
}

pub fn check_hostile(c: &HostileHead, st: &mut Stats) -> Result<(), Fail> {
    let data = hostile_bytes(c);
    let cuts = crate::props::c08::cut_positions(&c.cuts, data.len());
    if c.headers.iter().any(|(n, t)| HH_NAMES[*n as usize % HH_NAMES.len()].eq_ignore_ascii_case("accept-language") && t.len() >= 2) {
        st.nontrivial(c);
        st.class("accept-language-with->=2-members");
    }
    st.class(if c.h2 { "http2" } else { "http1" });
    stream_entry_points(&data, &cuts).map_err(|e| Fail::new(panic_key(&e), format!("{e} | input {}", truncate(&String::from_utf8_lossy(&data), 400))))?;
    // packet level: SYN, then the head as one data segment of the right direction, through the HTTP and the unified analyzer
    catch(|| {
        let cip = Ip::V4(Ip4 { src: [10, 1, 1, 1], dst: [10, 1, 1, 2], ..Ip4::default() });
        let sip = Ip::V4(Ip4 { src: [10, 1, 1, 2], dst: [10, 1, 1, 1], ..Ip4::default() });
        let syn = frame(Link::Ether, &cip, &Tcp { sport: 40001, dport: 80, seq: 10, flags: fr::SYN, ..Tcp::default() });
        let dat = if c.request { frame(Link::Ether, &cip, &Tcp { sport: 40001, dport: 80, seq: 11, ack: 1, flags: fr::ACK | fr::PSH, payload: data.clone(), ..Tcp::default() }) } else { frame(Link::Ether, &sip, &Tcp { sport: 80, dport: 40001, seq: 500, ack: 11, flags: fr::ACK | fr::PSH, payload: data.clone(), ..Tcp::default() }) };
        let mut hs = drive::HttpState::new(8);
        let _ = hs.feed(&syn, true);
        let _ = hs.feed(&dat, true);
        let mut u = huginn_net::HuginnNet::new(Some(drive::default_db()), 8, None).expect("unified");
        let _ = u.analyze_tcp(&syn);
        let _ = u.analyze_tcp(&dat);
    })
    .map_err(|e| Fail::new(panic_key(&e), format!("{e} | input {}", truncate(&String::from_utf8_lossy(&data), 400))))?;
    stream_probe(&[data])
}

pub fn run_hostile_heads(ctx: &Ctx) {
    let n = ctx.tier.pick(60_000, 1_500_000);
    ctx.run_prop(
        "http-heads-from-hostile-tokens",
        "HTTP/1.x request / response heads and HTTP/2 header lists assembled from a token dictionary: start lines with odd methods, targets, versions and status codes; 0..6 headers (Accept-Language, Cookie, Content-Length, Host ...) whose values are 0..5 members of language tag x separator x numeric token (nan, inf, 1e39, -1, +0.5, empty, `.`, 30-digit fractions, full-width digits, 2^64 ...); line ends CRLF / LF / folded / CR; through every stream entry point in generated chunks, the packet-level HTTP and unified analyzers, then the stream probe; non-trivial: an Accept-Language header with >= 2 members",
        n,
        || (any::<bool>(), proptest::bool::weighted(0.3), (any::<u8>(), any::<u8>(), any::<u8>()), proptest::collection::vec((prop_oneof![3 => 0u8..2, 2 => any::<u8>()], proptest::collection::vec((any::<u8>(), any::<u8>(), any::<u8>()), 0..6)), 0..7), any::<u8>(), proptest::collection::vec(any::<u16>(), 0..3)).prop_map(|(request, h2, start, headers, eol, cuts)| HostileHead { request, h2, start, headers, eol, cuts }),
        |c: &HostileHead, st: &mut Stats| {
            st.sample(|| json!({"h2": c.h2, "request": c.request, "head": truncate(&String::from_utf8_lossy(&hostile_bytes(c)), 200)}));
            check_hostile(c, st)
        },
    );
}
