//! C06 — signature text round-trips and the database loads losslessly.
use crate::engine::{idx, truncate, Ctx, Fail, Stats};
use crate::gen::sig::{self, HttpSigS, OptS, TcpSigS, TtlS, WinS};
use huginn_net_db::{http as dh, tcp as dt, Database};
use proptest::collection::vec;
use proptest::prelude::*;
use serde::{Deserialize, Serialize};
use serde_json::json;
use std::str::FromStr;

pub const P0F_PATH: &str = "/repo/huginn-net-db/config/p0f.fp";

fn nontrivial_tcp(s: &TcpSigS) -> bool {
    s.olayout.iter().any(|o| matches!(o, OptS::Eol(_) | OptS::Unknown(_))) || !matches!(s.ittl, TtlS::Value(_)) || !matches!(s.wsize, WinS::Value(_)) || s.quirks.len() >= 2
}

pub fn check_tcp_value(s: &TcpSigS) -> Result<(), Fail> {
    let v = s.db();
    let text = format!("{v}");
    match dt::Signature::from_str(&text) {
        Ok(back) => {
            if back != v {
                return Err(fail!("tcp:parse(print(v))!=v", "text {text:?}\nvalue {:?}\nback  {:?}", v, back));
            }
            let again = format!("{back}");
            if again != text {
                return Err(fail!("tcp:print-not-stable", "{text:?} -> {again:?}"));
            }
            Ok(())
        }
        Err(e) => Err(fail!("tcp:printed-value-does-not-parse", "text {text:?}: {e}")),
    }
}

pub fn check_http_value(s: &HttpSigS) -> Result<(), Fail> {
    let v = s.db();
    let text = format!("{v}");
    match dh::Signature::from_str(&text) {
        Ok(back) => {
            if back != v {
                return Err(fail!("http:parse(print(v))!=v", "text {text:?}\nvalue {:?}\nback  {:?}", v, back));
            }
            Ok(())
        }
        Err(e) => Err(fail!("http:printed-value-does-not-parse", "text {text:?}: {e}")),
    }
}

// ------------------------------------------------------------------------------------------------
// independent line scanner (mirror of a database text)
// ------------------------------------------------------------------------------------------------
#[derive(Clone, Debug, Default, PartialEq, Serialize, Deserialize)]
pub struct Mirror {
    pub classes: Vec<String>,
    pub ua_os: Vec<(String, Option<String>)>,
    pub mtu: Vec<(String, Vec<u16>)>,
    /// per section: ordered (label text, [sig text])
    pub tcp_request: Vec<(String, Vec<String>)>,
    pub tcp_response: Vec<(String, Vec<String>)>,
    pub http_request: Vec<(String, Vec<String>)>,
    pub http_response: Vec<(String, Vec<String>)>,
}

/// scan a database text the way the p0f format documents it (independent of the crate's parser)
pub fn scan(text: &str) -> Mirror {
    let mut m = Mirror::default();
    let mut section = String::new();
    for raw in text.lines() {
        let line = raw.trim();
        if line.is_empty() || line.starts_with(';') {
            continue;
        }
        if line.starts_with('[') && line.ends_with(']') {
            section = line[1..line.len() - 1].to_string();
            continue;
        }
        let (key, value) = match line.split_once('=') {
            Some((k, v)) => (k.trim(), v.trim()),
            None => continue,
        };
        if key == "classes" || key == "ua_os" {
            match key {
                "classes" => m.classes.extend(value.split(',').map(|s| s.trim().to_string()).filter(|s| !s.is_empty())),
                "ua_os" => {
                    // value may itself contain '=' inside entries: re-split the raw remainder
                    let rest = line.splitn(2, '=').nth(1).unwrap_or("").trim();
                    for e in rest.split(',') {
                        let e = e.trim();
                        if e.is_empty() {
                            continue;
                        }
                        match e.split_once('=') {
                            Some((n, v)) => {
                                let v = v.trim().trim_start_matches('[').trim_end_matches(']');
                                m.ua_os.push((n.trim().to_string(), Some(v.to_string())));
                            }
                            None => m.ua_os.push((e.to_string(), None)),
                        }
                    }
                }
                _ => {}
            }
            continue;
        }
        let value = line.splitn(2, '=').nth(1).unwrap_or("").trim();
        let coll = match section.as_str() {
            "mtu" => {
                match key {
                    "label" => m.mtu.push((value.to_string(), vec![])),
                    "sig" => {
                        if let Some(l) = m.mtu.last_mut() {
                            if let Ok(v) = value.parse::<u16>() {
                                l.1.push(v);
                            }
                        }
                    }
                    _ => {}
                }
                continue;
            }
            "tcp:request" => &mut m.tcp_request,
            "tcp:response" => &mut m.tcp_response,
            "http:request" => &mut m.http_request,
            "http:response" => &mut m.http_response,
            _ => continue,
        };
        match key {
            "label" => coll.push((value.to_string(), vec![])),
            "sig" => {
                if let Some(l) = coll.last_mut() {
                    l.1.push(value.to_string());
                }
            }
            _ => {}
        }
    }
    m
}

fn label_text(l: &huginn_net_db::Label) -> String {
    format!(
        "{}:{}:{}:{}",
        if l.ty == huginn_net_db::Type::Specified { "s" } else { "g" },
        l.class.clone().unwrap_or_else(|| "!".to_string()),
        l.name,
        l.flavor.clone().unwrap_or_default()
    )
}

/// compare a loaded database with the mirror of its text
pub fn compare(db: &Database, m: &Mirror) -> Result<(), Fail> {
    if db.classes != m.classes {
        return Err(fail!("load:classes", "expected {:?} got {:?}", m.classes, db.classes));
    }
    if db.ua_os != m.ua_os {
        return Err(fail!("load:ua_os", "expected {:?} got {:?}", m.ua_os, db.ua_os));
    }
    if db.mtu != m.mtu {
        return Err(fail!("load:mtu", "expected {:?} got {:?}", m.mtu, db.mtu));
    }
    fn cmp<S: std::fmt::Display>(name: &str, got: &[(huginn_net_db::Label, Vec<S>)], exp: &[(String, Vec<String>)]) -> Result<(), Fail> {
        if got.len() != exp.len() {
            return Err(fail!(format!("load:{name}:label-count"), "expected {} labels got {}", exp.len(), got.len()));
        }
        for (i, ((gl, gs), (el, es))) in got.iter().zip(exp.iter()).enumerate() {
            // labels: compare field-wise through the canonical text (empty flavor == none)
            let gt = label_text(gl);
            let et = if el.matches(':').count() == 2 { format!("{el}:") } else { el.clone() };
            if gt != et {
                return Err(fail!(format!("load:{name}:label"), "#{i}: expected {et:?} got {gt:?}"));
            }
            let gsig: Vec<String> = gs.iter().map(|s| format!("{s}")).collect();
            if &gsig != es {
                return Err(fail!(format!("load:{name}:signatures"), "label #{i} {el:?}: expected {:?} got {:?}", es, gsig));
            }
        }
        Ok(())
    }
    cmp("tcp_request", &db.tcp_request.entries, &m.tcp_request)?;
    cmp("tcp_response", &db.tcp_response.entries, &m.tcp_response)?;
    cmp("http_request", &db.http_request.entries, &m.http_request)?;
    cmp("http_response", &db.http_response.entries, &m.http_response)?;
    Ok(())
}

// ------------------------------------------------------------------------------------------------
// database text generator (text + mirror side by side)
// ------------------------------------------------------------------------------------------------
#[derive(Clone, Debug, Serialize, Deserialize, Hash)]
pub enum Item {
    Comment(String),
    Blank,
    Label { generic: bool, class: Option<String>, name: String, flavor: String },
    Sys(String),
    TcpSig(TcpSigS),
    HttpSig(HttpSigS),
    MtuLabel(String),
    MtuSig(u16),
    /// an additional `classes = ...` line (the format allows the key anywhere; entries accumulate)
    Classes(Vec<String>),
    /// an additional `ua_os = ...` line
    UaOs(Vec<(String, Option<String>)>),
}
#[derive(Clone, Debug, Serialize, Deserialize, Hash)]
pub struct Section {
    /// 0 mtu, 1 tcp:request, 2 tcp:response, 3 http:request, 4 http:response
    pub kind: u8,
    pub items: Vec<Item>,
}
#[derive(Clone, Debug, Serialize, Deserialize, Hash)]
pub struct DbText {
    pub classes: Vec<String>,
    pub ua_os: Vec<(String, Option<String>)>,
    pub sections: Vec<Section>,
    /// leading blanks / spaces around '=' variations
    pub style: u8,
    /// fault to inject (0 = none)
    pub fault: u8,
    pub fault_pos: u16,
}

const SECTION_NAMES: [&str; 5] = ["mtu", "tcp:request", "tcp:response", "http:request", "http:response"];

impl DbText {
    /// well-formed text
    pub fn render(&self) -> String {
        let eq = match self.style % 3 {
            0 => " = ",
            1 => "=",
            _ => "  =  ",
        };
        let ind = if self.style & 4 != 0 { "  " } else { "" };
        // ua_os rules: blanks around names and `=` are layout, not part of the rule (names may contain inner blanks); nothing may
        // stand between `]` and the next comma
        let ua = |u: &[(String, Option<String>)]| -> String {
            let (pre, post, eqs) = match (self.style >> 3) % 4 {
                0 => ("", "", "="),
                1 => (" ", "", " = "),
                2 => ("", " ", "= "),
                _ => (" ", " ", " ="),
            };
            u.iter().map(|(n, v)| match v { Some(v) => format!("{pre}{n}{eqs}[{v}]"), None => format!("{pre}{n}{post}") }).collect::<Vec<_>>().join(",")
        };
        let mut out = String::new();
        out.push_str("; generated database\n\n");
        if !self.classes.is_empty() {
            out.push_str(&format!("classes{eq}{}\n", self.classes.join(",")));
        }
        if !self.ua_os.is_empty() {
            out.push_str(&format!("ua_os{eq}{}\n", ua(&self.ua_os)));
        }
        for s in &self.sections {
            out.push_str(&format!("\n[{}]\n", SECTION_NAMES[s.kind as usize % 5]));
            let mut have_label = false;
            for it in &s.items {
                match (it, s.kind % 5) {
                    (Item::Comment(c), _) => out.push_str(&format!("; {c}\n")),
                    (Item::Classes(c), _) if !c.is_empty() => out.push_str(&format!("classes{eq}{}\n", c.join(","))),
                    (Item::UaOs(u), _) if !u.is_empty() => {
                        out.push_str(&format!("ua_os{eq}{}\n", ua(u)))
                    }
                    (Item::Blank, _) => out.push('\n'),
                    (Item::MtuLabel(l), 0) => {
                        have_label = true;
                        out.push_str(&format!("{ind}label{eq}{l}\n"))
                    }
                    (Item::MtuSig(v), 0) if have_label => out.push_str(&format!("{ind}sig{eq}{v}\n")),
                    (Item::Label { generic, class, name, flavor }, k) if k != 0 => {
                        have_label = true;
                        out.push_str(&format!("{ind}label{eq}{}:{}:{}:{}\n", if *generic { "g" } else { "s" }, class.clone().unwrap_or_else(|| "!".into()), name, flavor))
                    }
                    (Item::Sys(s), k) if k != 0 && have_label => out.push_str(&format!("{ind}sys{eq}{s}\n")),
                    (Item::TcpSig(t), 1 | 2) if have_label => out.push_str(&format!("{ind}sig{eq}{}\n", t.db())),
                    (Item::HttpSig(h), 3 | 4) if have_label => out.push_str(&format!("{ind}sig{eq}{}\n", h.db())),
                    _ => {}
                }
            }
        }
        out
    }
}

fn word() -> impl Strategy<Value = String> {
    "[A-Za-z][A-Za-z0-9]{0,8}"
}
fn phrase() -> impl Strategy<Value = String> {
    "[A-Za-z0-9][A-Za-z0-9 ./()-]{0,16}[A-Za-z0-9)]"
}

fn item(kind: u8) -> BoxedStrategy<Item> {
    let common = prop_oneof![
        4 => phrase().prop_map(Item::Comment),
        4 => Just(Item::Blank),
        1 => vec(word(), 1..3).prop_map(Item::Classes),
        1 => vec((word(), proptest::option::weighted(0.4, word())), 1..3).prop_map(Item::UaOs),
    ];
    match kind % 5 {
        0 => prop_oneof![1 => common, 2 => phrase().prop_map(Item::MtuLabel), 4 => any::<u16>().prop_map(Item::MtuSig)].boxed(),
        k => {
            let label = (any::<bool>(), proptest::option::weighted(0.7, word()), phrase(), prop_oneof![Just(String::new()), phrase(), Just("6.x: or newer".to_string())])
                .prop_map(|(generic, class, name, flavor)| Item::Label { generic, class, name, flavor });
            let sigs = if k <= 2 { sig::tcp_sig().prop_map(Item::TcpSig).boxed() } else { sig::http_sig().prop_map(|mut h| { h.expsw = h.expsw.trim().to_string(); Item::HttpSig(h) }).boxed() };
            prop_oneof![1 => common, 2 => label, 1 => "[@!]?[A-Za-z]{1,8}(,[@!]?[A-Za-z]{1,8}){0,2}".prop_map(Item::Sys), 5 => sigs].boxed()
        }
    }
}

pub fn db_text() -> impl Strategy<Value = DbText> {
    (
        vec(word(), 0..4),
        vec((prop_oneof![word(), Just("Mac OS X".to_string())], proptest::option::weighted(0.4, "[A-Za-z0-9 ]{1,8}")), 0..5),
        vec((0u8..5).prop_flat_map(|k| vec(item(k), 0..10).prop_map(move |items| Section { kind: k, items })), 0..7),
        any::<u8>(),
    )
        .prop_map(|(classes, ua_os, sections, style)| DbText { classes, ua_os: ua_os.into_iter().map(|(n, v)| (n, v.map(|v| v.trim().to_string()).filter(|v| !v.is_empty()))).collect(), sections, style, fault: 0, fault_pos: 0 })
}

pub fn check_db_text(t: &DbText, st: &mut Stats) -> Result<(), Fail> {
    let text = t.render();
    let mirror = scan(&text);
    if t.sections.len() >= 2 && text.contains("\n; ") {
        st.nontrivial(t);
    }
    match Database::from_str(&text) {
        Ok(db) => compare(&db, &mirror).map_err(|f| Fail::new(f.what, format!("{}\n--- text ---\n{}", f.detail, truncate(&text, 1200)))),
        Err(e) => Err(fail!("load:valid-text-rejected", "{e}\n--- text ---\n{}", truncate(&text, 1200))),
    }
}

pub const FAULTS: [&str; 10] = [
    "",
    "signature line before any label",
    "key=value line outside any section",
    "unparsable TCP signature",
    "mtu value that is not a number",
    "option kind out of range (?300)",
    "trailing junk after a TCP signature",
    "trailing junk on the classes line",
    "TTL out of range (300)",
    "section header outside the header grammar [name] / [name:direction]",
];

/// a valid text with exactly one injected fault: must be rejected
pub fn faulted(t: &DbText) -> Option<String> {
    let base = DbText { fault: 0, ..t.clone() }.render();
    let tsig = "4:64:0:*:mss*10,6:mss,sok,ts,nop,ws:df,id+:0";
    let lines: Vec<&str> = base.lines().collect();
    let pos_after = |pred: &dyn Fn(&str) -> bool| -> Option<usize> {
        let idxs: Vec<usize> = lines.iter().enumerate().filter(|(_, l)| pred(l)).map(|(i, _)| i).collect();
        if idxs.is_empty() {
            None
        } else {
            Some(idxs[idx(t.fault_pos, idxs.len())] + 1)
        }
    };
    let insert = |at: usize, s: &str| -> String {
        let mut l: Vec<String> = lines.iter().map(|x| x.to_string()).collect();
        l.insert(at.min(l.len()), s.to_string());
        l.join("\n")
    };
    match t.fault % 10 {
        1 => pos_after(&|l| l.trim() == "[tcp:request]" || l.trim() == "[tcp:response]").filter(|p| {
            // only when no label precedes in an earlier instance of the same section kind
            let sect = lines[*p - 1].trim();
            !lines[..*p - 1].iter().any(|l| l.trim() == sect)
        }).map(|p| insert(p, &format!("sig = {tsig}"))),
        2 => Some(format!("label = s:unix:Orphan:\n{base}")),
        3 => pos_after(&|l| l.trim_start().starts_with("label") && l.contains(':')).and_then(|p| {
            // the label must sit in a tcp section
            let sect = lines[..p].iter().rev().find(|l| l.trim().starts_with('[')).map(|s| s.trim().to_string())?;
            if sect.starts_with("[tcp") { Some(insert(p, "sig = 4:64:0:*:banana,6:mss:df:0")) } else { None }
        }),
        4 => pos_after(&|l| l.trim() == "[mtu]").map(|p| insert(p, "label = Somewhere\nsig = 15x0")),
        5 => pos_after(&|l| l.trim() == "[tcp:request]" || l.trim() == "[tcp:response]").map(|p| insert(p, "label = s:unix:X:\nsig = 4:64:0:*:mss*10,6:mss,?300,ws:df,id+:0")),
        6 => pos_after(&|l| l.trim() == "[tcp:request]" || l.trim() == "[tcp:response]").map(|p| insert(p, &format!("label = s:unix:X:\nsig = {tsig}:extra"))),
        7 => Some(format!("classes = win,unix other\n{base}")),
        8 => pos_after(&|l| l.trim() == "[tcp:request]" || l.trim() == "[tcp:response]").map(|p| insert(p, "label = s:unix:X:\nsig = 4:300:0:*:mss*10,6:mss:df:0")),
        // a header whose name only starts like a known section: `[tcp:request-legacy]`, `[tcp:request:old]`, `[mtu2]`, `[http:response.bak]`
        9 => pos_after(&|l| { let t = l.trim(); t.starts_with('[') && t.ends_with(']') }).map(|p| {
            let mut l: Vec<String> = lines.iter().map(|x| x.to_string()).collect();
            let h = l[p - 1].trim().to_string();
            let inner = &h[1..h.len() - 1];
            // the suffix must break the header grammar `[name]` / `[name:direction]` (letters only): a well-formed header with an
            // unknown name is a section the loader is allowed to skip, not a fault
            let mut suffix = ["-legacy", ":old", "2", ".bak", "_v2"][(t.fault_pos % 5) as usize];
            if suffix == ":old" && !inner.contains(':') {
                suffix = "-legacy";
            }
            l[p - 1] = format!("[{inner}{suffix}]");
            l.join("\n")
        }),
        _ => None,
    }
}

pub fn run(ctx: &Ctx) {
    ctx.assume("signature values: option layout has >= 1 element (the signature grammar's separated_list1; an empty layout is outside the vocabulary of p0f.fp); HTTP header names [A-Za-z0-9-]+, values without ']', >= 1 header");
    let n = ctx.tier.pick(1_000_000, 20_000_000);
    ctx.run_prop("tcp-value-roundtrip", "proptest TCP signature values over the whole vocabulary (all TTL forms, window forms, eol+n, ?n 0..255, quirk lists in any order with repeats, payload classes): parse(print(v)) == v; non-trivial: eol+n/?n, non-plain TTL, non-raw window or >= 2 quirks", n, sig::tcp_sig, |s: &TcpSigS, st: &mut Stats| {
        if nontrivial_tcp(s) {
            st.nontrivial(s);
        }
        st.sample(|| json!({"text": format!("{}", s.db())}));
        check_tcp_value(s)
    });
    let n = ctx.tier.pick(500_000, 10_000_000);
    ctx.run_prop("http-value-roundtrip", "proptest HTTP signature values (version 0/1/*, optional marks, bracket values incl. UTF-8 and separators, absent lists, software strings with ':'): parse(print(v)) == v; non-trivial: optional header or bracket value", n, sig::http_sig, |s: &HttpSigS, st: &mut Stats| {
        if s.horder.iter().any(|h| h.optional || h.value.is_some()) {
            st.nontrivial(s);
        }
        st.sample(|| json!({"text": format!("{}", s.db())}));
        check_http_value(s)
    });
    // canonical lines of the bundled file
    let bundled = std::fs::read_to_string(P0F_PATH).expect("p0f.fp readable");
    let mut sig_lines: Vec<(String, String)> = vec![];
    let mut section = String::new();
    for l in bundled.lines() {
        let l = l.trim();
        if l.starts_with('[') {
            section = l.to_string();
        }
        if l.starts_with("sig") && section != "[mtu]" {
            if let Some((_, v)) = l.split_once('=') {
                sig_lines.push((section.clone(), v.trim().to_string()));
            }
        }
    }
    let nl = sig_lines.len() as u64;
    ctx.run_indexed("bundled-lines-roundtrip", "every `sig =` line of the bundled p0f.fp (TCP and HTTP sections): print(parse(line)) == line; non-trivial: every line", true, nl, |i, st| {
        let (sec, line) = &sig_lines[i as usize];
        st.evals += 1;
        st.nontrivial(line);
        let printed = if sec.starts_with("[tcp") { dt::Signature::from_str(line).map(|s| format!("{s}")) } else { dh::Signature::from_str(line).map(|s| format!("{s}")) };
        match printed {
            Ok(p) if &p == line => {}
            Ok(p) => {
                // an empty absent list may be written with or without nothing between the colons: identical text expected
                st.fail(fail!("bundled:print(parse(line))!=line", "line  {line:?}\nprint {p:?}"), json!({"line": line}));
            }
            Err(e) => st.fail(fail!("bundled:line-does-not-parse", "{line:?}: {e}"), json!({"line": line})),
        }
        st.sample(|| json!({"section": sec, "line": line}));
    });
    // bundled file vs independent scanner
    ctx.run_indexed("bundled-database-load", "Database::load_default() and Database::from_str(p0f.fp) compared field by field with an independent line scanner of the file (classes, ua_os rules, mtu groups, per-section ordered labels and signatures)", true, 2, |i, st| {
        st.evals += 1;
        st.nontrivial(&i);
        let mirror = scan(&bundled);
        let db = if i == 0 { Database::load_default().map_err(|e| e.to_string()) } else { Database::from_str(&bundled).map_err(|e| e.to_string()) };
        match db {
            Ok(db) => {
                if let Err(f) = compare(&db, &mirror) {
                    st.fail(f, json!({"file": P0F_PATH}));
                }
                st.sample(|| json!({"labels": [mirror.tcp_request.len(), mirror.tcp_response.len(), mirror.http_request.len(), mirror.http_response.len()], "ua_os": mirror.ua_os, "mtu_groups": mirror.mtu.len()}));
            }
            Err(e) => st.fail(fail!("bundled:load-failed", "{e}"), json!({"file": P0F_PATH})),
        }
    });
    let n = ctx.tier.pick(40_000, 600_000);
    ctx.run_prop(
        "generated-database-load",
        "proptest database texts (sections in any order and repeated, comments, blank lines, classes, ua_os with bracket values and names with blanks, mtu groups, labels s|g:class|!:name:flavor, sys lines, TCP/HTTP signature lines, spacing variants) loaded and compared with the independent scanner's mirror: nothing dropped, merged, duplicated or attached to the wrong label/section; non-trivial: >= 2 sections and a comment",
        n,
        db_text,
        |t: &DbText, st: &mut Stats| {
            st.sample(|| json!({"text": truncate(&t.render(), 600)}));
            check_db_text(t, st)
        },
    );
    let n = ctx.tier.pick(40_000, 600_000);
    ctx.run_prop(
        "faulted-database-rejected",
        "a generated valid text with exactly one injected fault (signature before any label, line outside a section, unparsable signature, bad mtu number, ?300, section header that only starts like a known one, trailing junk after a signature / on the classes line, TTL 300) must be rejected with an error, never partially loaded; non-trivial: every case where the fault could be placed",
        n,
        || (db_text(), 1u8..10, any::<u16>()).prop_map(|(mut t, f, p)| { t.fault = f; t.fault_pos = p; t }),
        |t: &DbText, st: &mut Stats| {
            let text = match faulted(t) {
                Some(x) => x,
                None => {
                    st.class("fault-not-placeable");
                    return Ok(());
                }
            };
            st.nontrivial(t);
            st.class(FAULTS[(t.fault % 10) as usize]);
            st.sample(|| json!({"fault": FAULTS[(t.fault % 10) as usize], "text": truncate(&text, 400)}));
            match Database::from_str(&text) {
                Err(_) => Ok(()),
                Ok(_) => Err(fail!(format!("faulted-text-accepted:{}", FAULTS[(t.fault % 10) as usize]), "--- text ---\n{}", truncate(&text, 1200))),
            }
        },
    );
}

pub fn replay(_ctx: &Ctx, sub: &str, input: &serde_json::Value) -> Result<(), Fail> {
    let v = input["value"].clone();
    let mut st = Stats::new();
    match sub {
        "tcp-value-roundtrip" => check_tcp_value(&serde_json::from_value(v).map_err(|e| fail!("bad-replay", "{e}"))?),
        "http-value-roundtrip" => check_http_value(&serde_json::from_value(v).map_err(|e| fail!("bad-replay", "{e}"))?),
        "generated-database-load" => check_db_text(&serde_json::from_value(v).map_err(|e| fail!("bad-replay", "{e}"))?, &mut st),
        "faulted-database-rejected" => {
            let t: DbText = serde_json::from_value(v).map_err(|e| fail!("bad-replay", "{e}"))?;
            match faulted(&t) {
                Some(text) => match Database::from_str(&text) {
                    Err(_) => Ok(()),
                    Ok(_) => Err(fail!("faulted-text-accepted", "{}", truncate(&text, 800))),
                },
                None => Ok(()),
            }
        }
        _ => Err(fail!("bad-replay", "sub {sub}: re-run the check")),
    }
}
