//! C03 — TCP segments are rendered into the p0f signature their headers define.
use crate::drive::{self, TcpOut};
use crate::engine::{hex, Ctx, Fail, Stats};
use crate::gen::frames::{self as fr, frame, Ip, Ip4, Ip6, Link, Tcp};
use crate::gen::strat;
use crate::model::tcp::{self as m, OptItem, OptView, Role};
use huginn_net_db::observable_signals::TcpObservation;
use serde::{Deserialize, Serialize};
use serde_json::json;
use std::collections::BTreeSet;
use ttl_cache::TtlCache;

#[derive(Clone, Debug, Hash, Serialize, Deserialize)]
pub struct TcpCase {
    pub link: Link,
    pub ip: Ip,
    /// `tcp.options` is ignored: it is always `encode(opts)` (+ `raw_tail` for malformed areas)
    pub tcp: Tcp,
    pub opts: Vec<OptItem>,
    /// bytes appended after the well-formed items: makes the option area *malformed* (may be empty)
    pub raw_tail: Vec<u8>,
    /// Ethernet only: 0 = frame as built; 1 = zero padding up to the 60-byte minimum frame size; 2 = padding + 4-byte FCS;
    /// bytes behind the IP datagram are link-layer matter, not TCP payload
    #[serde(default)]
    pub wire: u8,
}

impl TcpCase {
    pub fn tcp_built(&self) -> Tcp {
        let mut t = self.tcp.clone();
        let mut o = m::encode_opts(&self.opts);
        o.extend_from_slice(&self.raw_tail);
        t.options = o;
        t
    }
    pub fn frame(&self) -> Vec<u8> {
        let mut f = frame(self.link, &self.ip, &self.tcp_built());
        if self.link == Link::Ether && self.wire % 3 != 0 {
            if f.len() < 60 {
                f.resize(60, 0);
            }
            if self.wire % 3 == 2 {
                f.extend_from_slice(&[0xde, 0xad, 0xbe, 0xef]);
            }
        }
        f
    }
    pub fn malformed(&self) -> bool {
        !self.raw_tail.is_empty()
    }
}

pub const K_EOL: &str = "K-C03-eol";
pub const K_MTU: &str = "K-C03-mtu";
pub const K_ROLE: &str = "K-C03-role";
pub const K_BAD: &str = "K-C03-optbad";
pub const K_WINMTU: &str = "K-C03-winmtu-v4";

fn obs_quirks(o: &TcpObservation) -> BTreeSet<String> {
    o.quirks.iter().map(|q| format!("{q}")).collect()
}
fn obs_layout(o: &TcpObservation) -> Vec<String> {
    o.olayout.iter().map(|q| format!("{q}")).collect()
}

/// differences between an observation and the expectation under one option view
fn diffs_under(o: &TcpObservation, case: &TcpCase, view: &OptView, hq: &BTreeSet<&'static str>, prefix_only: bool) -> Vec<Fail> {
    let mut d = vec![];
    let v4 = case.ip.is_v4();
    let lay = obs_layout(o);
    if prefix_only {
        // malformed area: layout compared only on the well-formed prefix
        if lay.len() < view.layout.len() || lay[..view.layout.len()] != view.layout[..] {
            d.push(fail!("olayout-prefix", "expected prefix {:?} got {:?}", view.layout, lay));
        }
    } else {
        if lay != view.layout {
            d.push(fail!("olayout", "expected {:?} got {:?}", view.layout, lay));
        }
        if o.mss != view.mss {
            d.push(fail!("mss", "expected {:?} got {:?}", view.mss, o.mss));
        }
        if o.wscale != view.wscale {
            d.push(fail!("wscale", "expected {:?} got {:?}", view.wscale, o.wscale));
        }
        let acc = m::window_acceptable(case.tcp.window, view.mss, view.has_ts, v4);
        let w = format!("{}", o.wsize);
        if !acc.contains(&w) {
            d.push(fail!("wsize", "window {} mss {:?} ts {} v4 {}: acceptable {:?} got {}", case.tcp.window, view.mss, view.has_ts, v4, acc, w));
        }
        let mut exp: BTreeSet<String> = hq.iter().map(|s| s.to_string()).collect();
        exp.extend(view.quirks.iter().map(|s| s.to_string()));
        let got = obs_quirks(o);
        if exp != got {
            d.push(fail!("quirks", "expected {:?} got {:?}", exp, got));
        }
    }
    d
}

fn fixed_field_diffs(o: &TcpObservation, case: &TcpCase) -> Vec<Fail> {
    let mut d = vec![];
    let (ver, ttl, olen) = match &case.ip {
        Ip::V4(i) => ("4", i.ttl, (i.ihl.saturating_sub(5) as u32 * 4) as u8),
        Ip::V6(i) => ("6", i.hop, 0u8),
    };
    if format!("{}", o.version) != ver {
        d.push(fail!("ver", "expected {} got {}", ver, o.version));
    }
    let it = m::ittl(ttl);
    if format!("{}", o.ittl) != it {
        d.push(fail!("ittl", "ttl {} expected {} got {}", ttl, it, o.ittl));
    }
    if o.olen != olen {
        d.push(fail!("olen", "expected {} got {}", olen, o.olen));
    }
    let pc = if case.tcp.payload.is_empty() { "0" } else { "+" };
    if format!("{}", o.pclass) != pc {
        d.push(fail!("pclass", "expected {} got {}", pc, o.pclass));
    }
    d
}

pub struct Seen<'a> {
    pub syn: Option<&'a TcpObservation>,
    pub syn_ack: Option<&'a TcpObservation>,
    pub mtu: Option<(u16, Option<String>)>,
    pub src: Option<(std::net::IpAddr, u16, std::net::IpAddr, u16)>,
    /// `Display` rendering of the reported observable (the wrapper type the analyzer hands out), for syn / syn_ack
    pub text: Option<String>,
}

/// the p0f text `ver:ittl:olen:mss:wsize,scale:olayout:quirks:pclass` of an observation, composed from its fields
pub fn compose_text(o: &TcpObservation) -> String {
    format!(
        "{}:{}:{}:{}:{},{}:{}:{}:{}",
        o.version,
        o.ittl,
        o.olen,
        o.mss.map(|m| m.to_string()).unwrap_or_else(|| "*".into()),
        o.wsize,
        o.wscale.map(|m| m.to_string()).unwrap_or_else(|| "*".into()),
        o.olayout.iter().map(|x| format!("{x}")).collect::<Vec<_>>().join(","),
        o.quirks.iter().map(|x| format!("{x}")).collect::<Vec<_>>().join(","),
        o.pclass
    )
}

/// Compare what an analyzer reported for `case` with the reference. `errored`: the analyzer returned an error / nothing.
pub fn judge(ctx: &Ctx, case: &TcpCase, seen: Option<Seen>, st: &mut Stats, who: &str) -> Result<(), Fail> {
    let role = m::role(case.tcp.flags);
    let tcp_type_syn = case.tcp.flags & (fr::SYN | fr::ACK | fr::FIN | fr::RST) == fr::SYN;
    let seen = match (role, seen) {
        (Role::Rejected, None) => return Ok(()),
        (Role::Rejected, Some(s)) => {
            if s.syn.is_none() && s.syn_ack.is_none() && s.mtu.is_none() {
                return Ok(());
            }
            return Err(fail!(format!("{who}:rejected-flags-yield-signature"), "flags {:#04x}", case.tcp.flags));
        }
        (_, None) => return Err(fail!(format!("{who}:no-result"), "flags {:#04x} role {:?}: analyzer returned an error/nothing", case.tcp.flags, role)),
        (_, Some(s)) => s,
    };
    // which signature slot
    let obs: Option<&TcpObservation> = match role {
        Role::Client => {
            if seen.syn_ack.is_some() {
                return Err(fail!(format!("{who}:syn-yields-server-signature"), "flags {:#04x}", case.tcp.flags));
            }
            match seen.syn {
                Some(o) => Some(o),
                None => return Err(fail!(format!("{who}:syn-without-client-signature"), "flags {:#04x}", case.tcp.flags)),
            }
        }
        Role::Server => {
            if seen.syn.is_some() {
                return Err(fail!(format!("{who}:synack-yields-client-signature"), "flags {:#04x}", case.tcp.flags));
            }
            match seen.syn_ack {
                Some(o) => Some(o),
                None => return Err(fail!(format!("{who}:synack-without-server-signature"), "flags {:#04x}", case.tcp.flags)),
            }
        }
        Role::Neither => {
            if seen.syn.is_some() {
                return Err(fail!(format!("{who}:non-handshake-yields-client-signature"), "flags {:#04x}", case.tcp.flags));
            }
            if let Some(o) = seen.syn_ack {
                if ctx.is_known(K_ROLE) {
                    st.known(K_ROLE);
                    Some(o) // still compare the rendering
                } else {
                    return Err(fail!(format!("{who}:non-handshake-yields-server-signature"), "flags {:#04x} -> {}", case.tcp.flags, o));
                }
            } else {
                None
            }
        }
        Role::Rejected => unreachable!(),
    };
    let hq = m::header_quirks(&case.ip, &case.tcp);
    let p0f = m::walk_opts(&case.opts, tcp_type_syn, true);
    let bug = m::walk_opts(&case.opts, tcp_type_syn, false);
    let eol_pred = p0f != bug || {
        // EOL followed by >=1 byte
        let pos = case.opts.iter().position(|o| *o == OptItem::Eol);
        matches!(pos, Some(p) if p + 1 < case.opts.len())
    };
    let mut matched_view = &p0f;
    if let Some(o) = obs {
        let fixed = fixed_field_diffs(o, case);
        if let Some(f) = fixed.into_iter().next() {
            return Err(Fail::new(format!("{who}:{}", f.what), f.detail));
        }
        // the observable as text: exactly the p0f rendering of the fields judged here, for the observation and for the wrapper the analyzer reports
        let composed = compose_text(o);
        if format!("{o}") != composed {
            return Err(fail!(format!("{who}:rendered-text"), "fields render as {composed}, the observation prints {o}"));
        }
        if let Some(t) = &seen.text {
            if *t != composed {
                return Err(fail!(format!("{who}:rendered-text"), "fields render as {composed}, the reported observable prints {t}"));
            }
        }
        if case.malformed() {
            // only the option-independent part is defined; plus `bad`
            let d = diffs_under(o, case, &bug, &hq, true);
            let d2 = diffs_under(o, case, &p0f, &hq, true);
            if !d.is_empty() && !d2.is_empty() {
                let f = &d2[0];
                return Err(Fail::new(format!("{who}:malformed:{}", f.what), f.detail.clone()));
            }
            let got = obs_quirks(o);
            for q in hq.iter() {
                if !got.contains(*q) {
                    return Err(fail!(format!("{who}:malformed:quirk-missing:{q}"), "got {:?}", got));
                }
            }
            for q in got.iter() {
                let option_quirk = matches!(q.as_str(), "ts1-" | "ts2+" | "opt+" | "exws" | "bad");
                if !option_quirk && !hq.contains(q.as_str()) {
                    return Err(fail!(format!("{who}:malformed:quirk-invented:{q}"), "got {:?} header-defined {:?}", got, hq));
                }
            }
            if !got.contains("bad") {
                if ctx.is_known(K_BAD) {
                    st.known(K_BAD);
                } else {
                    return Err(fail!(format!("{who}:malformed-options-without-bad-quirk"), "options {} -> {}", hex(&case.tcp_built().options), o));
                }
            }
        } else {
            let d_p0f = diffs_under(o, case, &p0f, &hq, false);
            if !d_p0f.is_empty() {
                let d_bug = if eol_pred { diffs_under(o, case, &bug, &hq, false) } else { d_p0f.clone() };
                if eol_pred && d_bug.is_empty() && ctx.is_known(K_EOL) {
                    st.known(K_EOL);
                    matched_view = &bug;
                } else {
                    // is the only difference the IPv4 "mtu multiple" with divisor MSS+IHL-words ?
                    let dd = if eol_pred && ctx.is_known(K_EOL) && d_bug.len() < d_p0f.len() { matched_view = &bug; d_bug } else { d_p0f };
                    let only_w = dd.len() == 1 && dd[0].what == "wsize";
                    if only_w && winmtu_pred(case, matched_view, o) && ctx.is_known(K_WINMTU) {
                        st.known(K_WINMTU);
                    } else {
                        let f = &dd[0];
                        return Err(Fail::new(format!("{who}:{}", f.what), format!("{} | observed {} | options {}", f.detail, o, hex(&case.tcp_built().options))));
                    }
                }
            }
        }
    }
    // MTU + link
    if !case.malformed() {
        let view = matched_view;
        let v4 = case.ip.is_v4();
        let exp_mtu = if role == Role::Client { view.mss.map(|mss| m::mtu_expected(mss, v4)) } else { None };
        let got = seen.mtu.clone();
        match (exp_mtu, got) {
            (None, None) => {}
            (None, Some((g, _))) => return Err(fail!(format!("{who}:mtu-invented"), "role {:?} mss {:?} got mtu {}", role, view.mss, g)),
            (Some(e), None) => return Err(fail!(format!("{who}:mtu-missing"), "expected {}", e)),
            (Some(e), Some((g, link))) => {
                let lookup = |v: u16| -> Option<String> {
                    for (l, vals) in &drive::default_db().mtu {
                        if vals.contains(&v) {
                            return Some(l.clone());
                        }
                    }
                    None
                };
                if g == e {
                    if link != lookup(e) {
                        return Err(fail!(format!("{who}:mtu-link"), "mtu {} expected link {:?} got {:?}", e, lookup(e), link));
                    }
                } else {
                    // known finding: MSS + IHL*4 + option bytes
                    let optb = case.tcp_built().options.len() as u16;
                    let buggy = match &case.ip {
                        Ip::V4(i) => view.mss.unwrap().saturating_add(i.ihl as u16 * 4).saturating_add(optb),
                        Ip::V6(_) => view.mss.unwrap().saturating_add(40).saturating_add(optb),
                    };
                    let pred = match &case.ip {
                        Ip::V4(i) => optb != 20 || i.ihl != 5,
                        Ip::V6(_) => optb != 20,
                    };
                    if pred && g == buggy && link == lookup(buggy) && ctx.is_known(K_MTU) {
                        st.known(K_MTU);
                    } else {
                        return Err(fail!(format!("{who}:mtu-value"), "mss {:?} expected {} got {} (link {:?})", view.mss, e, g, link));
                    }
                }
            }
        }
    }
    // endpoints
    if let Some((sip, sp, dip, dp)) = seen.src {
        if sip != case.ip.src() || dip != case.ip.dst() || sp != case.tcp.sport || dp != case.tcp.dport {
            return Err(fail!(format!("{who}:endpoints"), "got {sip}:{sp}->{dip}:{dp}"));
        }
    }
    Ok(())
}

/// IPv4 only: window reported as `mtu*n` with the divisor MSS + IHL-in-words (not an MTU)
fn winmtu_pred(case: &TcpCase, view: &OptView, o: &TcpObservation) -> bool {
    if let (Ip::V4(i), Some(mss), huginn_net_db::tcp::WindowSize::Mtu(n)) = (&case.ip, view.mss, &o.wsize) {
        let d = mss as u32 + i.ihl as u32;
        d * (*n as u32) == case.tcp.window as u32
    } else if let (Ip::V6(_), Some(mss), huginn_net_db::tcp::WindowSize::Mtu(n)) = (&case.ip, view.mss, &o.wsize) {
        // IPv6: divisor MSS + 40 (IP header only) instead of MSS + 60
        (mss as u32 + 40) * (*n as u32) == case.tcp.window as u32
    } else {
        false
    }
}

pub fn nontrivial(case: &TcpCase) -> bool {
    !case.opts.is_empty()
        || !m::header_quirks(&case.ip, &case.tcp).is_empty()
        || m::role(case.tcp.flags) == Role::Neither
        || !case.tcp.payload.is_empty()
}

/// run one case through the TCP crate path and the unified analyzer (TCP only enabled)
pub fn check_case(ctx: &Ctx, case: &TcpCase, st: &mut Stats, unified: bool) -> Result<(), Fail> {
    let f = case.frame();
    let mut tracker = TtlCache::new(16);
    drive::set_clock(Some(1_000_000));
    let out = drive::tcp_packet(&f, &mut tracker, true);
    let r = match &out {
        TcpOut::NotIp => return Err(fail!("tcp:frame-not-decoded", "frame {}", hex(&f))),
        TcpOut::Err(_) => judge(ctx, case, None, st, "tcp"),
        TcpOut::Ok(r) => {
            let src = r
                .syn
                .as_ref()
                .map(|s| (s.source.ip, s.source.port, s.destination.ip, s.destination.port))
                .or(r.syn_ack.as_ref().map(|s| (s.source.ip, s.source.port, s.destination.ip, s.destination.port)));
            judge(
                ctx,
                case,
                Some(Seen {
                    syn: r.syn.as_ref().map(|s| &s.sig.matching),
                    syn_ack: r.syn_ack.as_ref().map(|s| &s.sig.matching),
                    mtu: r.mtu.as_ref().map(|m| (m.mtu, m.link.link.clone())),
                    src,
                    text: r.syn.as_ref().map(|s| format!("{}", s.sig)).or(r.syn_ack.as_ref().map(|s| format!("{}", s.sig))),
                }),
                st,
                "tcp",
            )
        }
    };
    r?;
    if unified {
        let cfg = huginn_net::AnalysisConfig { http_enabled: false, tcp_enabled: true, tls_enabled: false, matcher_enabled: true };
        let mut hn = huginn_net::HuginnNet::new(Some(drive::default_db()), 16, Some(cfg)).map_err(|e| fail!("unified:new", "{e}"))?;
        let r = hn.analyze_tcp(&f);
        let empty = r.tcp_syn.is_none() && r.tcp_syn_ack.is_none() && r.tcp_mtu.is_none();
        let src = r
            .tcp_syn
            .as_ref()
            .map(|s| (s.source.ip, s.source.port, s.destination.ip, s.destination.port))
            .or(r.tcp_syn_ack.as_ref().map(|s| (s.source.ip, s.source.port, s.destination.ip, s.destination.port)));
        let seen = if empty && matches!(out, TcpOut::Err(_)) {
            None
        } else {
            Some(Seen {
                syn: r.tcp_syn.as_ref().map(|s| &s.sig.matching),
                syn_ack: r.tcp_syn_ack.as_ref().map(|s| &s.sig.matching),
                mtu: r.tcp_mtu.as_ref().map(|m| (m.mtu, m.link.link.clone())),
                src,
                text: r.tcp_syn.as_ref().map(|s| format!("{}", s.sig)).or(r.tcp_syn_ack.as_ref().map(|s| format!("{}", s.sig))),
            })
        };
        judge(ctx, case, seen, st, "unified")?;
    }
    drive::set_clock(None);
    Ok(())
}

fn record(ctx: &Ctx, case: &TcpCase, st: &mut Stats, unified: bool) {
    st.eval();
    if nontrivial(case) {
        st.nontrivial(case);
    }
    st.class(match m::role(case.tcp.flags) {
        Role::Client => "role:syn",
        Role::Server => "role:synack",
        Role::Neither => "role:other",
        Role::Rejected => "role:rejected",
    });
    if case.evals_sample() {
        st.sample(|| json!({"case": format!("{:?}", case), "frame": hex(&case.frame())}));
    }
    if let Err(f) = check_case(ctx, case, st, unified) {
        st.fail(f, serde_json::to_value(case).unwrap());
    }
}

impl TcpCase {
    fn evals_sample(&self) -> bool {
        true
    }
    pub fn base(v4: bool) -> TcpCase {
        TcpCase {
            link: Link::Ether,
            ip: if v4 { Ip::V4(Ip4::default()) } else { Ip::V6(Ip6::default()) },
            tcp: Tcp::default(),
            opts: vec![],
            raw_tail: vec![],
            wire: 0,
        }
    }
}

/// every option layout of the bundled database, as generated option items
pub fn bundled_layouts() -> Vec<Vec<OptItem>> {
    let db = drive::default_db();
    let mut out: Vec<Vec<OptItem>> = vec![];
    let mut seen = BTreeSet::new();
    for coll in [&db.tcp_request, &db.tcp_response] {
        for (_l, sigs) in &coll.entries {
            for s in sigs {
                let key = format!("{:?}", s.olayout);
                if !seen.insert(key) {
                    continue;
                }
                let mut items = vec![];
                for o in &s.olayout {
                    use huginn_net_db::tcp::TcpOption as T;
                    match o {
                        T::Eol(n) => {
                            items.push(OptItem::Eol);
                            for _ in 0..*n {
                                items.push(OptItem::Eol);
                            }
                        }
                        T::Nop => items.push(OptItem::Nop),
                        T::Mss => items.push(OptItem::Mss(1460)),
                        T::Ws => items.push(OptItem::Ws(7)),
                        T::Sok => items.push(OptItem::Sok),
                        T::Sack => items.push(OptItem::Sack(1)),
                        T::TS => items.push(OptItem::Ts(12345, 0)),
                        T::Unknown(k) => items.push(OptItem::Unknown(*k, vec![0xaa, 0xbb])),
                    }
                }
                out.push(items);
            }
        }
    }
    out
}

pub fn run(ctx: &Ctx) {
    ctx.assume("quirk tokens are compared as a set (order/duplication of tokens is not part of the property)");
    ctx.assume("window form: any rendering that is true of the window is accepted (mss*n, largest %m, mtu*n over the documented divisors); the raw value only when none applies");
    ctx.assume("IPv4 fragments (MF / offset != 0) are outside the generated domain");
    let layouts = bundled_layouts();

    // (a) all 256 flag bytes x header variants x small option pool
    let optpool: Vec<Vec<OptItem>> = vec![
        vec![],
        vec![OptItem::Mss(1460), OptItem::Sok, OptItem::Ts(100, 0), OptItem::Nop, OptItem::Ws(7)],
        vec![OptItem::Mss(1460), OptItem::Nop, OptItem::Ws(2), OptItem::Sok, OptItem::Ts(0, 55), OptItem::Eol, OptItem::Eol, OptItem::Eol, OptItem::Eol],
    ];
    ctx.run_indexed("flags-exhaustive", "all 256 TCP flag bytes x {v4,v6} x payload x seq/ack/urg zero-vs-nonzero x 3 option layouts; non-trivial: options, quirk, payload or non-handshake flags", true, 256 * 64 * 3, |i, st| {
        let flags = (i % 256) as u8;
        let v = (i / 256) % 64;
        let o = (i / (256 * 64)) as usize;
        let mut c = TcpCase::base(v & 1 == 0);
        c.tcp.flags = flags;
        if v & 2 != 0 {
            c.tcp.payload = b"GET".to_vec();
        }
        c.tcp.seq = if v & 4 != 0 { 0 } else { 0x01020304 };
        c.tcp.ack = if v & 8 != 0 { 0 } else { 0x0a0b0c0d };
        c.tcp.urg = if v & 16 != 0 { 0 } else { 7 };
        c.link = if v & 32 != 0 { Link::Raw } else { Link::Ether };
        c.opts = optpool[o].clone();
        record(ctx, &c, st, flags % 16 == 2);
    });

    // (b) all TTLs
    ctx.run_indexed("ttl-exhaustive", "all 256 TTL / hop-limit values x {v4,v6} x {SYN,SYN+ACK}", true, 256 * 4, |i, st| {
        let ttl = (i % 256) as u8;
        let mut c = TcpCase::base(i & 256 == 0);
        match &mut c.ip {
            Ip::V4(x) => x.ttl = ttl,
            Ip::V6(x) => x.hop = ttl,
        }
        if i & 512 != 0 {
            c.tcp.flags = fr::SYN | fr::ACK;
            c.tcp.ack = 1;
        }
        c.opts = optpool[1].clone();
        record(ctx, &c, st, true);
    });

    // (c) IP header bits
    ctx.run_indexed("ipbits-exhaustive", "IPv4: DF x MBZ x id zero/non-zero x 4 ECN codes x 4 DSCP samples x IHL 5..15 x 3 links; IPv6: flow zero/non-zero/high-bits x 4 ECN x 3 links", true, (2 * 2 * 2 * 4 * 4 * 11 * 3) + (3 * 4 * 3), |i, st| {
        let n4 = 2 * 2 * 2 * 4 * 4 * 11 * 3;
        let mut c;
        if i < n4 {
            c = TcpCase::base(true);
            let mut k = i;
            let df = k % 2; k /= 2;
            let mbz = k % 2; k /= 2;
            let idz = k % 2; k /= 2;
            let ecn = (k % 4) as u8; k /= 4;
            let dscp = [0u8, 1, 0x2e, 0x3f][(k % 4) as usize]; k /= 4;
            let ihl = 5 + (k % 11) as u8; k /= 11;
            let link = [Link::Ether, Link::Raw, Link::Null][(k % 3) as usize];
            if let Ip::V4(x) = &mut c.ip {
                x.flags = ((mbz as u8) << 2) | ((df as u8) << 1);
                x.id = if idz == 1 { 0 } else { 0x4242 };
                x.tos = (dscp << 2) | ecn;
                x.ihl = ihl;
                x.options = vec![1u8; (ihl as usize - 5) * 4];
            }
            c.link = link;
        } else {
            c = TcpCase::base(false);
            let mut k = i - n4;
            let fl = [0u32, 1, 0xf0000][(k % 3) as usize]; k /= 3;
            let ecn = (k % 4) as u8; k /= 4;
            let link = [Link::Ether, Link::Raw, Link::Null][(k % 3) as usize];
            if let Ip::V6(x) = &mut c.ip {
                x.flow = fl;
                x.tclass = 0xb8 | ecn;
            }
            c.link = link;
        }
        c.opts = optpool[1].clone();
        record(ctx, &c, st, true);
    });

    // (d) window x MSS
    let mss_pool: Vec<Option<u16>> = vec![None, Some(0), Some(99), Some(100), Some(536), Some(1024), Some(1360), Some(1380), Some(1400), Some(1440), Some(1452), Some(1460), Some(8960), Some(16344), Some(65495), Some(65535)];
    // thorough: a dense MSS pool (around the <100 cut-off, every MSS 1200..=1500, multiples of 64 / 100 up to jumbo frames,
    // the top of the u16 range, and 96 seeded values) - all 65536 windows against each
    let mss_pool: Vec<Option<u16>> = if ctx.tier == crate::engine::Tier::Thorough {
        let mut p: Vec<Option<u16>> = mss_pool;
        p.extend((88u16..=112).map(Some));
        p.extend((1200u16..=1500).map(Some));
        p.extend((1u16..=140).map(|k| Some(k * 64)));
        p.extend((1u16..=90).map(|k| Some(k * 100)));
        p.extend((65400u16..=65535).step_by(5).map(Some));
        let mut r = ctx.rng("window-x-mss:pool", 0);
        p.extend((0..96).map(|_| Some(r.below(65536) as u16)));
        p.sort();
        p.dedup();
        p
    } else {
        mss_pool
    };
    let wstep: u64 = ctx.tier.pick(1, 1);
    let nwin = 65536 / wstep;
    let combos = mss_pool.len() as u64 * 2 * 2;
    ctx.run_indexed("window-x-mss", &format!("all 65536 windows x {} MSS values (quick: 16 incl. none, <100, jumbo; thorough: dense pool of ~700) x timestamp option on/off x {{v4,v6}}; non-trivial: window not rendered raw", mss_pool.len()), true, nwin * combos, |i, st| {
        let win = ((i % nwin) * wstep) as u16;
        let mut k = i / nwin;
        let mss = mss_pool[(k % mss_pool.len() as u64) as usize]; k /= mss_pool.len() as u64;
        let ts = k % 2 == 1; k /= 2;
        let v4 = k % 2 == 0;
        let mut c = TcpCase::base(v4);
        c.tcp.window = win;
        let mut opts = vec![];
        if let Some(m) = mss {
            opts.push(OptItem::Mss(m));
        }
        if ts {
            opts.push(OptItem::Nop);
            opts.push(OptItem::Nop);
            opts.push(OptItem::Ts(77, 0));
        }
        c.opts = opts;
        st.eval();
        let f = case_quick(ctx, &c, st);
        if let Err(f) = f {
            st.fail(f, serde_json::to_value(&c).unwrap());
        }
    });

    // (d2) MSS and window-scale options whose length octet exceeds the canonical one while the bytes are present:
    //      the value is still the option's first octets (p0f reads it and flags the option)
    ctx.run_indexed("oversized-mss-and-ws-options", "MSS option with length 4..12 and window-scale option with length 3..8 (all octets present, NOP filled to a multiple of four) x 6 values x {SYN, SYN+ACK} x {v4, v6} x option first / after NOPs; oracle: the reported mss / wscale value is the option's first octets; non-trivial: length above the canonical one", true, (9 + 6) * 6 * 2 * 2 * 2, |i, st| {
        let mut k = i;
        let which = k % 15; k /= 15;
        let val = [0u16, 1, 536, 1460, 8960, 65535][(k % 6) as usize]; k /= 6;
        let synack = k % 2 == 1; k /= 2;
        let v4 = k % 2 == 0; k /= 2;
        let lead = k % 2 == 1;
        let mut c = TcpCase::base(v4);
        c.tcp.flags = if synack { fr::SYN | fr::ACK } else { fr::SYN };
        let (is_mss, len) = if which < 9 { (true, 4 + which as u8) } else { (false, 3 + (which - 9) as u8) };
        let mut tail: Vec<u8> = if lead { vec![1, 1] } else { vec![] };
        if is_mss {
            tail.extend_from_slice(&[2, len, (val >> 8) as u8, val as u8]);
            tail.extend(std::iter::repeat(0u8).take(len as usize - 4));
        } else {
            tail.extend_from_slice(&[3, len, val as u8]);
            tail.extend(std::iter::repeat(0u8).take(len as usize - 3));
        }
        while tail.len() % 4 != 0 {
            tail.push(1);
        }
        c.raw_tail = tail;
        st.evals += 1;
        if (is_mss && len > 4) || (!is_mss && len > 3) {
            st.nontrivial(&(which, val, synack, v4, lead));
        }
        let f = c.frame();
        let mut tracker: drive::TcpTracker = ttl_cache::TtlCache::new(4);
        let obs = match drive::tcp_packet(&f, &mut tracker, false) {
            drive::TcpOut::Ok(r) => {
                if synack { r.syn_ack.map(|s| (s.sig.matching.mss, s.sig.matching.wscale)) } else { r.syn.map(|s| (s.sig.matching.mss, s.sig.matching.wscale)) }
            }
            _ => None,
        };
        let ok = match obs {
            Some((mss, ws)) => if is_mss { mss == Some(val) } else { ws == Some(val as u8) },
            None => false,
        };
        if !ok {
            st.fail(fail!(if is_mss { "tcp:mss-of-oversized-option" } else { "tcp:wscale-of-oversized-option" }, "option length {len}, value {val}: observed (mss, wscale) {:?} | options {}", obs, crate::engine::hex(&c.raw_tail)), json!({"frame": crate::engine::hex(&f)}));
        }
    });

    // (e) every bundled option layout x flags
    let n_lay = layouts.len() as u64;
    ctx.run_indexed("bundled-layouts", "every distinct option layout of p0f.fp (incl. eol+n padding) x {SYN, SYN+ACK} x {v4,v6}", true, n_lay * 4, |i, st| {
        let mut c = TcpCase::base(i % 2 == 0);
        c.opts = layouts[(i / 4) as usize].clone();
        if (i / 2) % 2 == 1 {
            c.tcp.flags = fr::SYN | fr::ACK;
            c.tcp.ack = 9;
        }
        // pad to a multiple of four with NOPs if the layout is not aligned (the database does not say)
        while m::encode_opts(&c.opts).len() % 4 != 0 {
            c.opts.push(OptItem::Nop);
        }
        if m::encode_opts(&c.opts).len() > 40 {
            return;
        }
        record(ctx, &c, st, true);
    });

    // (f) random full packets
    let n = ctx.tier.pick(400_000, 6_000_000);
    ctx.run_prop(
        "random-packets",
        "proptest: link x IPv4(IHL 5..15, all header bits)/IPv6 x all TCP header fields x option grammar (<=40 bytes, NOP or EOL padding, zero / non-zero padding) x payload; non-trivial: options, quirk, payload or non-handshake flags",
        n,
        || strat::tcp_case(false),
        |c: &TcpCase, st: &mut Stats| {
            if nontrivial(c) {
                st.nontrivial(c);
            }
            st.class(if c.opts.iter().any(|o| *o == OptItem::Eol) { "opts:with-eol" } else if c.opts.is_empty() { "opts:none" } else { "opts:no-eol" });
            st.class(match m::role(c.tcp.flags) {
                Role::Client => "role:syn",
                Role::Server => "role:synack",
                Role::Neither => "role:other",
                Role::Rejected => "role:rejected",
            });
            st.sample(|| json!({"case": format!("{:?}", c), "frame": hex(&c.frame())}));
            check_case(ctx, c, st, true)
        },
    );

    // (g) malformed option areas
    let n = ctx.tier.pick(150_000, 2_000_000);
    ctx.run_prop(
        "malformed-options",
        "proptest: well-formed option prefix + malformed tail (length byte < 2, length past the area, truncated fixed-size option); only option-independent fields + `bad` are compared; non-trivial: every case",
        n,
        || strat::tcp_case(true),
        |c: &TcpCase, st: &mut Stats| {
            st.nontrivial(c);
            st.sample(|| json!({"case": format!("{:?}", c), "frame": hex(&c.frame())}));
            match crate::engine::catch(|| {
                let mut scratch = Stats::new();
                let r = check_case(ctx, c, &mut scratch, false);
                (r, scratch)
            }) {
                Ok((r, scratch)) => {
                    for (k, v) in scratch.known_hits {
                        for _ in 0..v {
                            st.known(&k);
                        }
                    }
                    r
                }
                // crashes on malformed options are C01's business; here they only mean "no rendering to compare"
                Err(_) => {
                    st.class("panicked(C01)");
                    Ok(())
                }
            }
        },
    );
}

/// cheap path for the 4M-case window sweep: TCP crate only, no unified analyzer
fn case_quick(ctx: &Ctx, c: &TcpCase, st: &mut Stats) -> Result<(), Fail> {
    let f = c.frame();
    let mut tracker = TtlCache::new(4);
    drive::set_clock(Some(1_000_000));
    let out = drive::tcp_packet(&f, &mut tracker, false);
    match &out {
        TcpOut::Ok(r) => {
            if let Some(s) = &r.syn {
                if !matches!(s.sig.matching.wsize, huginn_net_db::tcp::WindowSize::Value(_)) {
                    st.nontrivial(&(c.tcp.window, &c.opts, c.ip.is_v4()));
                }
                if st.samples.len() < 3 && c.tcp.window % 1460 == 0 && c.tcp.window > 0 {
                    st.sample(|| json!({"window": c.tcp.window, "opts": format!("{:?}", c.opts), "rendered": format!("{}", s.sig.matching)}));
                }
            }
            // matcher off: link label not looked up -> judge would flag link; compare without mtu link by passing db lookup result
            let lookup = |v: u16| -> Option<String> {
                for (l, vals) in &drive::default_db().mtu {
                    if vals.contains(&v) {
                        return Some(l.clone());
                    }
                }
                None
            };
            judge(
                ctx,
                c,
                Some(Seen {
                    syn: r.syn.as_ref().map(|s| &s.sig.matching),
                    syn_ack: r.syn_ack.as_ref().map(|s| &s.sig.matching),
                    mtu: r.mtu.as_ref().map(|m| (m.mtu, lookup(m.mtu))),
                    src: None,
                    text: r.syn.as_ref().map(|s| format!("{}", s.sig)).or(r.syn_ack.as_ref().map(|s| format!("{}", s.sig))),
                }),
                st,
                "tcp",
            )
        }
        _ => Err(fail!("tcp:no-result", "window sweep frame rejected")),
    }
}

pub fn replay(ctx: &Ctx, input: &serde_json::Value) -> Result<(), Fail> {
    let v = if input.get("value").is_some() { &input["value"] } else { input };
    let case: TcpCase = serde_json::from_value(v.clone()).map_err(|e| fail!("bad-replay", "{e}"))?;
    let mut st = Stats::new();
    let r = check_case(ctx, &case, &mut st, true);
    for (k, n) in &st.known_hits {
        eprintln!("known-finding hit {k} x{n}");
    }
    r
}
