//! C02 — best match equals the optimum of a full database scan (the index is transparent).
use crate::engine::{idx, Ctx, Fail, Stats};
use crate::gen::sig::{self, HdrS, HttpSigS, OptS, TcpSigS, TtlS, WinS};
use huginn_net_db::db::FingerprintCollection;
use huginn_net_db::db_matching_trait::{DatabaseSignature, FingerprintDb, MatchQuality};
use huginn_net_db::observable_signals::{HttpRequestObservation, HttpResponseObservation, TcpObservation};
use huginn_net_db::{http as dh, tcp as dt, Database, Label, Type};
use proptest::collection::vec;
use proptest::prelude::*;
use serde::{Deserialize, Serialize};
use serde_json::json;

/// exhaustive scan in database order: first entry with the strictly smallest distance
/// the quality that belongs to a distance is read from the protocol's own score table (`MatchQuality::distance_to_score` of the TCP
/// resp. HTTP quality type), not from the signature's `get_quality_score`, which is the thing under test here
pub fn tcp_table(d: u32) -> f32 {
    <dt::TcpMatchQuality as MatchQuality>::distance_to_score(d)
}
pub fn http_table(d: u32) -> f32 {
    <dh::HttpMatchQuality as MatchQuality>::distance_to_score(d)
}
pub fn full_scan<O, S: DatabaseSignature<O>>(entries: &[(Label, Vec<S>)], obs: &O, table: fn(u32) -> f32) -> (Option<(usize, usize, u32, f32)>, usize)
where
    O: huginn_net_db::db_matching_trait::ObservedFingerprint,
{
    let mut best: Option<(usize, usize, u32, f32)> = None;
    let mut accepting = 0;
    for (li, (_l, sigs)) in entries.iter().enumerate() {
        for (si, s) in sigs.iter().enumerate() {
            if let Some(d) = s.calculate_distance(obs) {
                accepting += 1;
                if best.map(|b| d < b.2).unwrap_or(true) {
                    best = Some((li, si, d, table(d)));
                }
            }
        }
    }
    (best, accepting)
}

fn label(i: usize) -> Label {
    Label { ty: if i % 3 == 0 { Type::Generic } else { Type::Specified }, class: Some("unix".into()), name: format!("OS{i}"), flavor: Some(format!("v{i}")) }
}

// ---- clustered TCP generator ------------------------------------------------------------------
/// few layouts (so that index buckets collide), together covering every option kind of the vocabulary
const LAYOUTS: [&[OptS]; 6] = [
    &[OptS::Mss],
    &[OptS::Mss, OptS::Sok, OptS::Ts, OptS::Nop, OptS::Ws],
    &[OptS::Mss, OptS::Nop, OptS::Ws, OptS::Nop, OptS::Nop, OptS::Sok],
    &[OptS::Mss, OptS::Nop, OptS::Nop, OptS::Sok, OptS::Eol(1)],
    &[OptS::Mss, OptS::Nop, OptS::Nop, OptS::Sack, OptS::Unknown(30)],
    &[OptS::Sack, OptS::Sok, OptS::Unknown(0), OptS::Eol(0)],
];
const QLISTS: [&[u8]; 4] = [&[], &[0, 1], &[0], &[0, 1, 3]];

pub fn clustered_tcp_sig() -> impl Strategy<Value = TcpSigS> {
    (
        prop_oneof![Just(4u8), Just(6u8), Just(0u8)],
        prop_oneof![3 => Just(TtlS::Value(64)), 2 => Just(TtlS::Value(128)), 1 => Just(TtlS::Value(255)), 1 => Just(TtlS::Bad(0)), 1 => Just(TtlS::Guess(64))],
        prop_oneof![4 => Just(0u8), 1 => Just(4u8)],
        prop_oneof![2 => Just(None), 1 => Just(Some(1460u16)), 1 => Just(Some(1380u16))],
        prop_oneof![2 => Just(WinS::Any), 1 => Just(WinS::Mss(4)), 1 => Just(WinS::Mss(10)), 1 => Just(WinS::Value(8192)), 1 => Just(WinS::Mod(1024)), 1 => Just(WinS::Mtu(2))],
        prop_oneof![2 => Just(None), 1 => Just(Some(7u8)), 1 => Just(Some(0u8))],
        0usize..6,
        0usize..4,
        0u8..3,
    )
        .prop_map(|(ver, ittl, olen, mss, wsize, wscale, l, q, pclass)| TcpSigS { ver, ittl, olen, mss, wsize, wscale, olayout: LAYOUTS[l].to_vec(), quirks: QLISTS[q].to_vec(), pclass })
}

#[derive(Clone, Debug, Serialize, Deserialize, Hash)]
pub struct TcpDbCase {
    pub db: Vec<Vec<TcpSigS>>,
    /// observations: (base signature selector or none, instantiator choices, perturbations, free-form observation)
    pub obs: Vec<(Option<u16>, Vec<u16>, Vec<(u8, u16)>, TcpSigS)>,
}

fn tcp_observation(case: &TcpDbCase, o: &(Option<u16>, Vec<u16>, Vec<(u8, u16)>, TcpSigS)) -> TcpObservation {
    let flat: Vec<&TcpSigS> = case.db.iter().flatten().collect();
    let mut obs = match (o.0, flat.is_empty()) {
        (Some(sel), false) => {
            let base = flat[idx(sel, flat.len())].clone();
            let law = crate::props::c12::TcpLaw { sig: base.clone(), ch: o.1.clone(), pert: (0, 0) };
            crate::props::c12::instantiate(&law).unwrap_or_else(|| base.obs())
        }
        _ => {
            let mut f = o.3.clone();
            // observations carry concrete version / payload class
            if f.ver == 0 {
                f.ver = 4;
            }
            if f.pclass == 2 {
                f.pclass = 0;
            }
            if f.wsize == WinS::Any {
                f.wsize = WinS::Value(8192);
            }
            f.obs()
        }
    };
    // perturb up to two non-decisive fields so that distances differ and tie
    for (field, how) in o.2.iter().take(2) {
        match field % 5 {
            0 => obs.olen = obs.olen.wrapping_add(4),
            1 => obs.mss = Some(1380 + (how % 3) * 40),
            2 => obs.wscale = Some((how % 3) as u8 * 7),
            3 => {
                obs.ittl = match obs.ittl {
                    dt::Ttl::Distance(t, d) => dt::Ttl::Distance(t, d.wrapping_add(64)),
                    dt::Ttl::Value(v) => dt::Ttl::Value(v ^ 0x40),
                    other => other,
                }
            }
            _ => {
                obs.wsize = match how % 3 {
                    0 => dt::WindowSize::Mss(4),
                    1 => dt::WindowSize::Value(8192),
                    _ => dt::WindowSize::Mod(1024),
                }
            }
        }
    }
    obs
}

fn compare<'a, S: std::fmt::Display>(who: &str, got: Option<(&'a Label, &'a S, f32)>, entries: &'a [(Label, Vec<S>)], exp: Option<(usize, usize, u32, f32)>, obs_text: &str) -> Result<(), Fail> {
    match (got, exp) {
        (None, None) => Ok(()),
        (None, Some((li, si, d, _))) => Err(fail!(format!("{who}:index-hides-acceptable-entry"), "observation {obs_text}: full scan selects label #{li} sig #{si} `{}` at distance {d}, lookup returned nothing", entries[li].1[si])),
        (Some((l, s, _)), None) => Err(fail!(format!("{who}:match-although-nothing-accepts"), "observation {obs_text}: got {} `{}`", l.name, s)),
        (Some((l, s, q)), Some((li, si, d, eq))) => {
            let el = &entries[li].0;
            let es = &entries[li].1[si];
            if !std::ptr::eq(l, el) || !std::ptr::eq(s, es) {
                return Err(fail!(format!("{who}:wrong-winner"), "observation {obs_text}: full scan selects label #{li} ({}) sig #{si} `{}` at distance {d}; lookup returned {} `{}`", el.name, es, l.name, s));
            }
            if q != eq {
                return Err(fail!(format!("{who}:quality"), "observation {obs_text}: distance {d} => quality {eq}, reported {q}"));
            }
            Ok(())
        }
    }
}

pub fn check_tcp_case(c: &TcpDbCase, st: &mut Stats) -> Result<(), Fail> {
    let entries: Vec<(Label, Vec<dt::Signature>)> = c.db.iter().enumerate().map(|(i, sigs)| (label(i), sigs.iter().map(|s| s.db()).collect())).collect();
    let mk = || FingerprintCollection::<TcpObservation, dt::Signature, huginn_net_db::db::TcpIndexKey>::new(entries.clone());
    let coll = mk();
    // the same through a Database + the TCP crate's matcher (request and response tables)
    let database = Database { classes: vec![], mtu: vec![], ua_os: vec![], tcp_request: mk(), tcp_response: mk(), http_request: Default::default(), http_response: Default::default() };
    let matcher = huginn_net_tcp::SignatureMatcher::new(&database);
    for o in &c.obs {
        let obs = tcp_observation(c, o);
        st.evals += 1;
        let (exp, accepting) = full_scan(&coll.entries, &obs, tcp_table);
        let wild = exp.map(|(li, si, _, _)| {
            let s = &coll.entries[li].1[si];
            s.version == dt::IpVersion::Any || s.pclass == dt::PayloadSize::Any
        });
        if accepting >= 2 || wild == Some(true) {
            st.nontrivial(&(c, o));
        }
        st.class(match accepting {
            0 => "accepting:0",
            1 => "accepting:1",
            _ => "accepting:2+",
        });
        let text = format!("{obs}");
        compare("tcp", coll.find_best_match(&obs), &coll.entries, exp, &text)?;
        let ot = huginn_net_tcp::ObservableTcp { matching: obs.clone() };
        compare("tcp-matcher-request", matcher.matching_by_tcp_request(&ot), &database.tcp_request.entries, exp, &text)?;
        compare("tcp-matcher-response", matcher.matching_by_tcp_response(&ot), &database.tcp_response.entries, exp, &text)?;
    }
    Ok(())
}

// ---- clustered HTTP generator -----------------------------------------------------------------
fn hdr(name: &str, value: Option<&str>, optional: bool) -> HdrS {
    HdrS { optional, name: name.to_string(), value: value.map(|s| s.to_string()) }
}
fn hlists() -> Vec<Vec<HdrS>> {
    vec![
        vec![hdr("Host", None, false), hdr("User-Agent", None, false), hdr("Accept", Some("*/*"), false), hdr("Connection", Some("keep-alive"), false)],
        vec![hdr("Host", None, false), hdr("User-Agent", None, false), hdr("Accept", Some("*/*"), false), hdr("Accept-Language", None, true), hdr("Connection", Some("keep-alive"), false)],
        vec![hdr("Host", None, false), hdr("Connection", Some("close"), false)],
        vec![hdr("Server", None, false), hdr("Date", None, false), hdr("Content-Type", None, false), hdr("Content-Length", None, true)],
        vec![hdr("user-agent", None, false), hdr("accept", Some("*/*"), false)],
    ]
}
const SOFT: [&str; 4] = ["", "Firefox/", "curl/", "nginx"];

pub fn clustered_http_sig() -> impl Strategy<Value = HttpSigS> {
    (prop_oneof![1 => Just(0u8), 1 => Just(1u8), 2 => Just(9u8)], 0usize..5, 0usize..3, 0usize..4).prop_map(|(version, h, a, s)| HttpSigS {
        version,
        horder: hlists()[h].clone(),
        habsent: [vec![], vec![hdr("Keep-Alive", None, false)], vec![hdr("Accept-Charset", None, false), hdr("Keep-Alive", None, false)]][a].clone(),
        expsw: SOFT[s].to_string(),
    })
}

#[derive(Clone, Debug, Serialize, Deserialize, Hash)]
pub struct HttpDbCase {
    pub db: Vec<Vec<HttpSigS>>,
    /// observations: version 0..3, header list selector, number of dropped/changed headers, absent selector, software selector
    pub obs: Vec<(u8, u16, u8, u8, u8)>,
}

pub fn check_http_case(c: &HttpDbCase, st: &mut Stats) -> Result<(), Fail> {
    let entries: Vec<(Label, Vec<dh::Signature>)> = c.db.iter().enumerate().map(|(i, sigs)| (label(i), sigs.iter().map(|s| s.db()).collect())).collect();
    let req = FingerprintCollection::<HttpRequestObservation, dh::Signature, huginn_net_db::db::HttpIndexKey>::new(entries.clone());
    let resp = FingerprintCollection::<HttpResponseObservation, dh::Signature, huginn_net_db::db::HttpIndexKey>::new(entries.clone());
    let database = Database {
        classes: vec![],
        mtu: vec![],
        ua_os: vec![],
        tcp_request: Default::default(),
        tcp_response: Default::default(),
        http_request: FingerprintCollection::new(entries.clone()),
        http_response: FingerprintCollection::new(entries.clone()),
    };
    let matcher = huginn_net_http::SignatureMatcher::new(&database);
    let lists = hlists();
    for (v, hsel, drop, asel, ssel) in &c.obs {
        let version = sig::hver_db(*v % 4);
        // header list: an instantiation / perturbation of a database list
        let flat: Vec<&HttpSigS> = c.db.iter().flatten().collect();
        let base: Vec<HdrS> = if !flat.is_empty() && hsel % 2 == 0 { flat[idx(*hsel, flat.len())].horder.clone() } else { lists[idx(*hsel, lists.len())].clone() };
        let mut horder: Vec<dh::Header> = base.iter().map(|h| dh::Header { optional: false, name: h.name.clone(), value: h.value.clone() }).collect();
        for k in 0..(*drop % 4) {
            if horder.len() > 1 {
                if k % 2 == 0 {
                    horder.remove((k as usize) % horder.len());
                } else {
                    let i = (k as usize * 3) % horder.len();
                    horder[i].value = Some("changed".into());
                }
            }
        }
        // header-less and single-header messages are observations too
        if *drop == 4 {
            horder.clear();
        } else if *drop == 5 {
            horder.truncate(1);
        }
        let habsent: Vec<dh::Header> = [vec![], vec![dh::Header::new("Keep-Alive")], vec![dh::Header::new("Accept-Charset"), dh::Header::new("Keep-Alive")]][(*asel % 3) as usize].clone();
        let expsw = ["", "Firefox/", "curl/", "nginx", "Mozilla/5.0 Firefox/3.6"][(*ssel % 5) as usize].to_string();
        st.evals += 1;
        let ro = HttpRequestObservation { version, horder: horder.clone(), habsent: habsent.clone(), expsw: expsw.clone() };
        let so = HttpResponseObservation { version, horder, habsent, expsw };
        let (exp, accepting) = full_scan(&req.entries, &ro, http_table);
        let (exp2, _) = full_scan(&resp.entries, &so, http_table);
        if accepting >= 2 || exp.map(|(li, si, _, _)| req.entries[li].1[si].version == dh::Version::Any).unwrap_or(false) {
            st.nontrivial(&(c, v, hsel, drop, asel, ssel));
        }
        st.class(match *v % 4 {
            0 => "obs:HTTP/1.0",
            1 => "obs:HTTP/1.1",
            2 => "obs:HTTP/2",
            _ => "obs:HTTP/3",
        });
        st.class(match accepting {
            0 => "accepting:0",
            1 => "accepting:1",
            _ => "accepting:2+",
        });
        let text = format!("{ro}");
        if let Some((_, _, d, _)) = exp2 {
            st.class(match d {
                0 => "winner-distance:0",
                1..=3 => "winner-distance:1-3",
                4..=7 => "winner-distance:4-7",
                _ => "winner-distance:8+",
            });
        }
        compare("http-request", req.find_best_match(&ro), &req.entries, exp, &text)?;
        compare("http-response", resp.find_best_match(&so), &resp.entries, exp2, &text)?;
        let oreq = huginn_net_http::observable::ObservableHttpRequest { matching: ro.clone(), lang: None, user_agent: None, headers: vec![], cookies: vec![], referer: None, method: None, uri: None };
        compare("http-matcher-request", matcher.matching_by_http_request(&oreq), &database.http_request.entries, exp, &text)?;
        let oresp = huginn_net_http::observable::ObservableHttpResponse { matching: so.clone(), headers: vec![], status_code: None };
        compare("http-matcher-response", matcher.matching_by_http_response(&oresp), &database.http_response.entries, exp2, &text)?;
    }
    Ok(())
}

pub fn run(ctx: &Ctx) {
    ctx.assume("the reference scan uses the public calculate_distance of each entry (the distances themselves are C12's subject); the quality that belongs to a distance is read from the protocol's own score table (MatchQuality::distance_to_score of TcpMatchQuality / HttpMatchQuality), never from the signature object under test");
    let n = ctx.tier.pick(25_000, 400_000);
    ctx.run_prop(
        "tcp-generated-databases",
        "proptest clustered TCP databases (1..30 labels x 0..3 signatures - a label may have no `sig` line - over few layouts / quirk lists so that index buckets collide and distances tie; every wildcard mix of IP version and payload class) x 60 observations each (instances of database signatures with up to two perturbed non-decisive fields, or free-form) vs exhaustive scan in database order; also through huginn_net_tcp::SignatureMatcher (request and response tables); non-trivial: >= 2 accepting entries or a wildcard in an indexed field of the winner",
        n,
        || {
            (
                vec(prop_oneof![1 => Just(vec![]), 9 => vec(clustered_tcp_sig(), 1..4)], 1..30),
                vec((proptest::option::weighted(0.6, any::<u16>()), vec(any::<u16>(), 8), vec((0u8..5, any::<u16>()), 0..3), clustered_tcp_sig()), 60),
            )
                .prop_map(|(db, obs)| TcpDbCase { db, obs })
        },
        |c: &TcpDbCase, st: &mut Stats| {
            st.evals = st.evals.saturating_sub(1);
            st.sample(|| json!({"labels": c.db.len(), "first_sig": c.db.iter().flatten().next().map(|x| format!("{}", x.db())), "first_obs": format!("{}", tcp_observation(c, &c.obs[0]))}));
            check_tcp_case(c, st)
        },
    );
    let n = ctx.tier.pick(25_000, 400_000);
    ctx.run_prop(
        "http-generated-databases",
        "proptest clustered HTTP databases (versions 0/1/*, 5 header lists with optional headers, 3 absent lists, 4 software strings) x 60 observations each over HTTP/1.0, 1.1, 2 and 3 (database lists with dropped / changed headers, incl. header-less and single-header messages) vs exhaustive scan, request and response tables, also through huginn_net_http::SignatureMatcher; non-trivial: >= 2 accepting entries or a `*`-version winner",
        n,
        || (vec(prop_oneof![1 => Just(vec![]), 9 => vec(clustered_http_sig(), 1..4)], 1..25), vec((0u8..4, any::<u16>(), 0u8..6, 0u8..3, 0u8..5), 60)).prop_map(|(db, obs)| HttpDbCase { db, obs }),
        |c: &HttpDbCase, st: &mut Stats| {
            st.evals = st.evals.saturating_sub(1);
            st.sample(|| json!({"labels": c.db.len(), "first_sig": c.db.iter().flatten().next().map(|x| format!("{}", x.db())), "obs0": format!("{:?}", c.obs[0])}));
            check_http_case(c, st)
        },
    );
    // bundled database x generated observations
    let db = crate::drive::default_db();
    let flat_req: Vec<&dt::Signature> = db.tcp_request.entries.iter().flat_map(|(_, s)| s.iter()).collect();
    let flat_resp: Vec<&dt::Signature> = db.tcp_response.entries.iter().flat_map(|(_, s)| s.iter()).collect();
    let n = ctx.tier.pick(1_000_000u64, 20_000_000);
    ctx.run_indexed("bundled-tcp", "bundled p0f.fp tables x observations derived from every bundled signature (wildcards instantiated for IPv4/IPv6, hops 0..30, 0..2 perturbed non-decisive fields; seeded) vs exhaustive scan; non-trivial: >= 2 accepting entries", false, n, |i, st| {
        let mut r = ctx.rng("bundled-tcp", i);
        let (coll, flat) = if i % 2 == 0 { (&db.tcp_request, &flat_req) } else { (&db.tcp_response, &flat_resp) };
        let s = flat[(i / 2) as usize % flat.len()];
        let hops = r.below(31) as u8;
        let mut o = TcpObservation {
            version: match s.version {
                dt::IpVersion::Any => if r.chance(1, 2) { dt::IpVersion::V4 } else { dt::IpVersion::V6 },
                v => v,
            },
            ittl: match s.ittl {
                dt::Ttl::Value(t) if t > hops => dt::Ttl::Distance(t - hops, hops),
                ref t => t.clone(),
            },
            olen: s.olen,
            mss: s.mss.or(if r.chance(1, 4) { None } else { Some(*r.pick(&[1460u16, 1380, 1400, 536])) }),
            wsize: if s.wsize == dt::WindowSize::Any { dt::WindowSize::Value(r.below(65536) as u16) } else { s.wsize.clone() },
            wscale: s.wscale.or(if r.chance(1, 4) { None } else { Some(r.below(15) as u8) }),
            olayout: s.olayout.clone(),
            quirks: s.quirks.clone(),
            pclass: if s.pclass == dt::PayloadSize::Any { if r.chance(1, 2) { dt::PayloadSize::Zero } else { dt::PayloadSize::NonZero } } else { s.pclass },
        };
        for _ in 0..r.below(3) {
            match r.below(4) {
                0 => o.olen = o.olen.wrapping_add(4),
                1 => o.mss = Some(r.below(3000) as u16),
                2 => o.wscale = Some(r.below(15) as u8),
                _ => o.wsize = dt::WindowSize::Mss(r.below(50) as u8),
            }
        }
        st.evals += 1;
        let (exp, accepting) = full_scan(&coll.entries, &o, tcp_table);
        if accepting >= 2 {
            st.nontrivial(&i);
        }
        st.sample(|| json!({"observation": format!("{o}"), "accepting_entries": accepting}));
        if let Err(f) = compare("bundled-tcp", coll.find_best_match(&o), &coll.entries, exp, &format!("{o}")) {
            st.fail(f, json!({"observation": format!("{o}")}));
        }
    });
    let hreq: Vec<&dh::Signature> = db.http_request.entries.iter().flat_map(|(_, s)| s.iter()).collect();
    let hresp: Vec<&dh::Signature> = db.http_response.entries.iter().flat_map(|(_, s)| s.iter()).collect();
    let n = ctx.tier.pick(400_000u64, 8_000_000);
    ctx.run_indexed("bundled-http", "bundled HTTP tables x observations derived from every bundled signature (optional headers in/out, 0..3 dropped/changed headers, versions 1.0/1.1/2/3, software exact / embedded / other) vs exhaustive scan; non-trivial: >= 2 accepting entries", false, n, |i, st| {
        let mut r = ctx.rng("bundled-http", i);
        let request = i % 2 == 0;
        let flat = if request { &hreq } else { &hresp };
        let s = flat[(i / 2) as usize % flat.len()];
        let mut horder: Vec<dh::Header> = s.horder.iter().filter(|h| !h.optional || r.chance(1, 2)).map(|h| dh::Header { optional: false, name: h.name.clone(), value: h.value.clone() }).collect();
        for _ in 0..r.below(4) {
            if horder.len() > 1 {
                let k = r.below(horder.len() as u64) as usize;
                if r.chance(1, 2) {
                    horder.remove(k);
                } else {
                    horder[k].value = Some("x".into());
                }
            }
        }
        let version = match s.version {
            dh::Version::Any => *r.pick(&[dh::Version::V10, dh::Version::V11, dh::Version::V20, dh::Version::V30]),
            v => if r.chance(1, 8) { dh::Version::V20 } else { v },
        };
        let habsent: Vec<dh::Header> = s.habsent.iter().map(|h| dh::Header::new(&h.name)).collect();
        let expsw = match r.below(3) {
            0 => s.expsw.clone(),
            1 => format!("Mozilla/5.0 {} (X)", s.expsw),
            _ => "other".to_string(),
        };
        st.evals += 1;
        if request {
            let o = HttpRequestObservation { version, horder, habsent, expsw };
            let (exp, accepting) = full_scan(&db.http_request.entries, &o, http_table);
            if accepting >= 2 {
                st.nontrivial(&i);
            }
            st.sample(|| json!({"observation": format!("{o}"), "accepting_entries": accepting}));
            if let Err(f) = compare("bundled-http-request", db.http_request.find_best_match(&o), &db.http_request.entries, exp, &format!("{o}")) {
                st.fail(f, json!({"observation": format!("{o}")}));
            }
        } else {
            let o = HttpResponseObservation { version, horder, habsent, expsw };
            let (exp, accepting) = full_scan(&db.http_response.entries, &o, http_table);
            if accepting >= 2 {
                st.nontrivial(&i);
            }
            if let Err(f) = compare("bundled-http-response", db.http_response.find_best_match(&o), &db.http_response.entries, exp, &format!("{o}")) {
                st.fail(f, json!({"observation": format!("{o}")}));
            }
        }
    });
}

pub fn replay(_ctx: &Ctx, sub: &str, input: &serde_json::Value) -> Result<(), Fail> {
    let v = input["value"].clone();
    let mut st = Stats::new();
    match sub {
        "tcp-generated-databases" => check_tcp_case(&serde_json::from_value(v).map_err(|e| fail!("bad-replay", "{e}"))?, &mut st),
        "http-generated-databases" => check_http_case(&serde_json::from_value(v).map_err(|e| fail!("bad-replay", "{e}"))?, &mut st),
        _ => Err(fail!("bad-replay", "sub {sub}: seeded sweep over the bundled database, re-run the check with the same VERIF_SEED")),
    }
}
