//! C18 — dispatch keeps connections together and accounts for every packet exactly once.
use crate::engine::{fnv64, hex, truncate, Ctx, Fail, Stats};
use crate::gen::frames::{frame, Ip, Link};
use crate::gen::strat;
use crate::gen::trace::{self, TraceCase};
use crate::pool::{run_pool, PoolCfg, PoolKind};
use crate::props::c03::TcpCase;
use proptest::prelude::*;
use serde::{Deserialize, Serialize};
use serde_json::json;
use std::collections::BTreeMap;

#[derive(Clone, Debug, Serialize, Deserialize, Hash)]
pub struct HashCase {
    /// identity: taken from `a` (addresses, ports); `b` supplies every other field
    pub a: TcpCase,
    pub b: TcpCase,
    pub workers: u8,
    /// reverse the direction of `b`
    pub reverse: bool,
    pub ihl_low: Option<u8>,
}

fn with_identity(id: &TcpCase, other: &TcpCase, reverse: bool) -> TcpCase {
    let mut c = other.clone();
    // same IP version and addresses / ports as `id`
    c.ip = match (&id.ip, &other.ip) {
        (Ip::V4(i), Ip::V4(o)) => {
            let mut n = o.clone();
            n.src = i.src;
            n.dst = i.dst;
            Ip::V4(n)
        }
        (Ip::V6(i), Ip::V6(o)) => {
            let mut n = o.clone();
            n.src = i.src;
            n.dst = i.dst;
            Ip::V6(n)
        }
        (i, _) => i.clone(),
    };
    c.tcp.sport = id.tcp.sport;
    c.tcp.dport = id.tcp.dport;
    if reverse {
        match &mut c.ip {
            Ip::V4(n) => std::mem::swap(&mut n.src, &mut n.dst),
            Ip::V6(n) => std::mem::swap(&mut n.src, &mut n.dst),
        }
        std::mem::swap(&mut c.tcp.sport, &mut c.tcp.dport);
    }
    // the dispatch hashers decode Ethernet and raw IP framing only
    if c.link == Link::Null {
        c.link = Link::Raw;
    }
    c
}

pub fn check_hash(c: &HashCase, st: &mut Stats) -> Result<(), Fail> {
    let n = (c.workers as usize).max(1);
    let mut a = c.a.clone();
    if a.link == Link::Null {
        a.link = Link::Ether;
    }
    // a seventh of the cases: both endpoints on one host (only the ports tell the directions apart)
    if c.workers % 7 == 3 && a.tcp.sport != a.tcp.dport {
        match &mut a.ip {
            Ip::V4(i) => i.dst = i.src,
            Ip::V6(i) => i.dst = i.src,
        }
        st.class("same-host-endpoints");
    }
    let b_same = with_identity(&a, &c.b, false);
    let b_rev = with_identity(&a, &c.b, true);
    let mut fa = a.frame();
    let mut fb = b_same.frame();
    let fr = b_rev.frame();
    // only for packets without IP options: with options the invalid IHL moves where the decoder sees the TCP header
    let no_opts = matches!((&a.ip, &b_same.ip), (Ip::V4(x), Ip::V4(y)) if x.ihl == 5 && y.ihl == 5);
    if let (Some(ihl), true) = (c.ihl_low, no_opts) {
        // same (invalid) IHL < 5 on both: identity must still decide alone
        for (f, cs) in [(&mut fa, &a), (&mut fb, &b_same)] {
            let off = if cs.link == Link::Ether { 14 } else { 0 };
            f[off] = 0x40 | (ihl % 5);
        }
        st.class("ihl<5");
    }
    // raw IP frames whose bytes 12..14 look like an ethertype are decoded as Ethernet by everything: outside the domain
    for (f, cs) in [(&fa, &a), (&fb, &b_same), (&fr, &b_rev)] {
        if cs.link == Link::Raw && crate::gen::frames::raw_is_ambiguous(f) {
            st.discards += 1;
            return Ok(());
        }
    }
    // TCP: sender address
    // the TCP hasher returns a hash that the pool reduces to an index on its own: equal hashes are equal workers under any reduction
    let (ha, hb) = (huginn_net_tcp::packet_hash::hash_source_ip(&fa), huginn_net_tcp::packet_hash::hash_source_ip(&fb));
    if ha != hb {
        return Err(fail!("tcp:hash-depends-on-more-than-the-source-address", "workers {n}: {ha} vs {hb}\nA {}\nB {}", hex(&fa[..fa.len().min(80)]), hex(&fb[..fb.len().min(80)])));
    }
    // HTTP: 4-tuple irrespective of direction
    let (ha, hb, hr) = (huginn_net_http::packet_hash::hash_flow(&fa, n), huginn_net_http::packet_hash::hash_flow(&fb, n), huginn_net_http::packet_hash::hash_flow(&fr, n));
    if ha >= n || hb >= n || hr >= n {
        return Err(fail!("http:worker-index-out-of-range", "{ha} {hb} {hr} of {n}"));
    }
    if ha != hb {
        return Err(fail!("http:hash-depends-on-more-than-the-4-tuple", "workers {n}: {ha} vs {hb}\nA {}\nB {}", hex(&fa[..fa.len().min(80)]), hex(&fb[..fb.len().min(80)])));
    }
    if c.ihl_low.is_none() && ha != hr {
        return Err(fail!("http:directions-of-one-connection-hash-apart", "workers {n}: {ha} vs reversed {hr}\nA {}\nR {}", hex(&fa[..fa.len().min(80)]), hex(&fr[..fr.len().min(80)])));
    }
    // TLS: directed 4-tuple
    let (ha, hb) = (huginn_net_tls::packet_hash::hash_flow(&fa, n), huginn_net_tls::packet_hash::hash_flow(&fb, n));
    match (ha, hb) {
        (Some(x), Some(y)) => {
            if x >= n || y >= n {
                return Err(fail!("tls:worker-index-out-of-range", "{x} {y} of {n}"));
            }
            if x != y {
                return Err(fail!("tls:hash-depends-on-more-than-the-4-tuple", "workers {n}: {x} vs {y}\nA {}\nB {}", hex(&fa[..fa.len().min(80)]), hex(&fb[..fb.len().min(80)])));
            }
        }
        (None, None) => {}
        (x, y) => {
            // decodable frames (full IP + TCP header present) must hash
            return Err(fail!("tls:identity-decodable-for-one-frame-only", "{:?} vs {:?}\nA {}\nB {}", x, y, hex(&fa[..fa.len().min(80)]), hex(&fb[..fb.len().min(80)])));
        }
    }
    Ok(())
}

/// truncated / arbitrary frames: a valid index (or None for TLS), never a panic
pub fn check_total(f: &[u8], n: usize) -> Result<(), Fail> {
    let r = crate::engine::catch(|| {
        let a = huginn_net_tcp::packet_hash::hash_source_ip(f) % n;
        let b = huginn_net_http::packet_hash::hash_flow(f, n);
        let c = huginn_net_tls::packet_hash::hash_flow(f, n);
        (a, b, c)
    });
    match r {
        Err(p) => Err(fail!("hash:panic", "{p} on {}", hex(f))),
        Ok((a, b, c)) => {
            if a >= n || b >= n || c.map(|x| x >= n).unwrap_or(false) {
                return Err(fail!("hash:index-out-of-range", "{a} {b} {:?} of {n} on {}", c, hex(f)));
            }
            Ok(())
        }
    }
}

// ------------------------------------------------------------------------------------------------
// accounting
// ------------------------------------------------------------------------------------------------
#[derive(Clone, Debug, Serialize, Deserialize, Hash)]
pub struct AcctCase {
    pub trace: TraceCase,
    pub repeat: u8,
    pub kind: u8,
    pub workers: u8,
    pub queue_sel: u8,
    pub batch: u8,
    pub timeout_ms: u8,
    pub dispatchers: u8,
    pub perturb: u64,
    pub junk: Vec<Vec<u8>>,
}

pub fn acct_frames(c: &AcctCase) -> Vec<Vec<u8>> {
    let base: Vec<Vec<u8>> = c.trace.interleaved().into_iter().map(|p| p.frame).collect();
    let mut out = vec![];
    for r in 0..(1 + c.repeat as usize % 6) {
        for (i, f) in base.iter().enumerate() {
            let mut f = f.clone();
            // make every frame distinct (IP id / flow label is not part of any identity): tag the last payload/FCS byte area
            f.extend_from_slice(&[(r as u8), (i >> 8) as u8, i as u8]);
            out.push(f);
        }
    }
    for j in &c.junk {
        let k = out.len();
        let mut j = j.clone();
        j.extend_from_slice(&[0xee, (k >> 8) as u8, k as u8]);
        out.insert(k / 2, j);
    }
    out
}

pub fn check_acct(c: &AcctCase, st: &mut Stats) -> Result<(), Fail> {
    let kind = [PoolKind::Tcp, PoolKind::Http, PoolKind::Tls][(c.kind % 3) as usize];
    let frames = acct_frames(c);
    let workers = 1 + (c.workers % 8) as usize;
    let queue = [0usize, 1, 2, 8, 1024][(c.queue_sel % 5) as usize];
    let cfg = PoolCfg { workers, queue, batch: 1 + (c.batch % 64) as usize, timeout_ms: 1 + (c.timeout_ms % 10) as u64, dispatchers: 1 + (c.dispatchers % 4) as usize, perturb: Some(c.perturb), max_sleep_us: 300, max_conn: 1000 };
    let run = run_pool(kind, &frames, &cfg, None, None).map_err(|e| fail!("pool:new", "{e}"))?;
    if let Some(p) = &run.worker_panic {
        return Err(Fail::new(format!("{:?}:worker-{}", kind, crate::engine::panic_key(p)), format!("a worker thread panicked: {p}")));
    }
    if run.drain_timeout {
        st.class("drain-timeout(inconclusive)");
        st.discards += 1;
        return Ok(());
    }
    let nq = run.queued.iter().filter(|q| **q).count() as u64;
    let nd = frames.len() as u64 - nq;
    if nd > 0 && nq > 0 && (cfg.dispatchers >= 2 || workers >= 2) {
        st.nontrivial(c);
    }
    st.class(&format!("{:?} queue={}", kind, queue));
    if nd > 0 {
        st.class("with-drops");
    }
    // every queued frame analysed exactly once, dropped ones never, and the worker that analysed it is a function of the frame's
    // connection identity alone (observed on the pool itself: how the pool reduces a hash to an index is its own business)
    let identity = |f: &[u8]| -> Option<String> {
        crate::props::c15::decoded_endpoints(f).map(|(s, d, sp, dp)| match kind {
            PoolKind::Tcp => format!("{s}"),
            PoolKind::Http => {
                let (a, b) = ((s, sp), (d, dp));
                if a <= b { format!("{a:?}|{b:?}") } else { format!("{b:?}|{a:?}") }
            }
            PoolKind::Tls => format!("{s}:{sp}>{d}:{dp}"),
        })
    };
    let mut expect: BTreeMap<u64, (i64, Option<String>)> = BTreeMap::new();
    for (f, q) in frames.iter().zip(&run.queued) {
        let e = expect.entry(fnv64(f)).or_insert_with(|| (0, identity(f)));
        if *q {
            e.0 += 1;
        }
    }
    let mut worker_of: std::collections::HashMap<String, usize> = std::collections::HashMap::new();
    let mut seen: BTreeMap<u64, i64> = BTreeMap::new();
    for (w, h) in &run.analysed {
        *seen.entry(*h).or_insert(0) += 1;
        match expect.get(h) {
            None => return Err(fail!(format!("{:?}:analysed-a-frame-never-dispatched", kind), "hash {h:x}")),
            Some((_, id)) => {
                if *w >= workers {
                    return Err(fail!(format!("{:?}:analysed-by-a-worker-that-does-not-exist", kind), "worker {w} of {workers}"));
                }
                if let Some(id) = id {
                    let first = *worker_of.entry(id.clone()).or_insert(*w);
                    if first != *w {
                        return Err(fail!(format!("{:?}:frames-of-one-connection-identity-analysed-on-different-workers", kind), "identity {id}: workers {first} and {w} of {workers}"));
                    }
                }
            }
        }
    }
    for (h, (n, _)) in &expect {
        let s = seen.get(h).copied().unwrap_or(0);
        if s != *n {
            let what = if s > *n { "frame-analysed-more-often-than-queued (dropped frame analysed or duplicate analysis)" } else { "queued-frame-never-analysed" };
            return Err(fail!(format!("{:?}:{what}", kind), "frame {h:x}: queued {n} time(s), analysed {s} time(s); workers {workers} queue {queue} dispatchers {}", cfg.dispatchers));
        }
    }
    // counters
    let none_hash = if kind == PoolKind::Tls { frames.iter().filter(|f| huginn_net_tls::packet_hash::hash_flow(f, workers).is_none()).count() as u64 } else { 0 };
    if run.total_dropped != nd {
        return Err(fail!(format!("{:?}:total_dropped-disagrees-with-dispatch-results", kind), "stats {} vs {} Dropped returns ({} frames)", run.total_dropped, nd, frames.len()));
    }
    if run.total_dispatched != nq && run.total_dispatched != nq + nd - none_hash {
        return Err(fail!(format!("{:?}:total_dispatched-disagrees-with-dispatch-results", kind), "stats {} vs {} Queued / {} Dropped returns", run.total_dispatched, nq, nd));
    }
    let wsum: u64 = run.worker_dropped.iter().sum();
    let full_drops = nd - none_hash;
    let ok = match kind {
        PoolKind::Http => wsum >= full_drops, // the HTTP pool also counts analysis errors per worker
        _ => wsum == full_drops,
    };
    if !ok {
        return Err(fail!(format!("{:?}:per-worker-dropped-disagrees", kind), "sum {} vs {} queue-full drops", wsum, full_drops));
    }
    Ok(())
}

pub fn run(ctx: &Ctx) {
    ctx.assume("dispatch hashers decode Ethernet and raw IP framing (the property's quantifier); raw frames whose bytes 12..14 look like an IP ethertype are outside the domain");
    ctx.assume("thread interleavings are sampled (schedule perturbation at the verif-hooks points), not enumerated");
    let n = ctx.tier.pick(200_000, 6_000_000);
    ctx.run_prop(
        "hash-is-a-function-of-identity",
        "proptest pairs of frames with the same connection identity but independently generated payload, flags, window, options, TTL, IP id / flow label, DSCP, IHL 5..15, link framing (Ethernet vs raw), for the HTTP pool also the reversed direction, and the same invalid IHL < 5 on both; worker counts 1..64; oracle: equal worker for the TCP (source address), HTTP (unordered 4-tuple) and TLS (directed 4-tuple) hashers, index < workers; non-trivial: the two frames differ in length or framing",
        n,
        || (strat::tcp_case(false), strat::tcp_case(false), 1u8..=64, any::<bool>(), proptest::option::weighted(0.1, 0u8..5)).prop_map(|(a, b, workers, reverse, ihl_low)| HashCase { a, b, workers, reverse, ihl_low }),
        |c: &HashCase, st: &mut Stats| {
            if c.a.frame().len() != c.b.frame().len() || c.a.link != c.b.link {
                st.nontrivial(c);
            }
            st.sample(|| json!({"a": hex(&c.a.frame()[..c.a.frame().len().min(60)]), "workers": c.workers}));
            check_hash(c, st)
        },
    );
    let n = ctx.tier.pick(300_000, 5_000_000);
    ctx.run_prop(
        "hash-total-on-arbitrary-frames",
        "truncations of generated frames at every class of length and arbitrary byte strings, worker counts 1..64: a valid index (None allowed for TLS), no panic; non-trivial: frame shorter than its headers claim",
        n,
        || (strat::tcp_case(false), any::<u16>(), 1usize..=64, proptest::collection::vec(any::<u8>(), 0..80), any::<bool>()),
        |(c, cut, n, junk, use_junk): &(TcpCase, u16, usize, Vec<u8>, bool), st: &mut Stats| {
            let f = c.frame();
            let f = if *use_junk { junk.clone() } else { f[..crate::engine::idx(*cut, f.len() + 1)].to_vec() };
            st.nontrivial(&f);
            check_total(&f, *n)
        },
    );
    let n = ctx.tier.pick(3_000, 40_000);
    ctx.shrink_iters.store(12, std::sync::atomic::Ordering::Relaxed);
    ctx.run_prop(
        "pool-accounting",
        "proptest traces (1..6 connections repeated 1..6 times + junk frames; every frame distinct) x {TCP, HTTP, TLS} pool x workers 1..8 x queue size {0, 1, 2, 8, 1024} x batch 1..64 x timeout 1..10 ms x 1..4 concurrent dispatcher threads x seeded schedule perturbation (yield / sleep <= 300 us at the dispatch and worker hook points); oracle from the worker trace: multiset(analysed) == multiset(frames reported Queued), all frames of one connection identity (TCP: source address; HTTP: unordered endpoint pair; TLS: directed 4-tuple, as the analyzer's own decoder reads them) on one and the same existing worker, Dropped never analysed, total_dropped == #Dropped, total_dispatched == #Queued or #Queued + #Dropped, per-worker drops consistent; non-trivial: >= 1 Dropped and >= 1 Queued with >= 2 dispatchers or >= 2 workers",
        n,
        || {
            (trace::trace_case(6, false), any::<u8>(), 0u8..3, any::<u8>(), 0u8..5, any::<u8>(), any::<u8>(), any::<u8>(), any::<u64>(), proptest::collection::vec(proptest::collection::vec(any::<u8>(), 0..60), 0..4))
                .prop_map(|(trace, repeat, kind, workers, queue_sel, batch, timeout_ms, dispatchers, perturb, junk)| AcctCase { trace, repeat, kind, workers, queue_sel, batch, timeout_ms, dispatchers, perturb, junk })
        },
        |c: &AcctCase, st: &mut Stats| {
            st.sample(|| json!({"frames": acct_frames(c).len(), "kind": c.kind % 3, "workers": 1 + c.workers % 8, "queue": ([0, 1, 2, 8, 1024][(c.queue_sel % 5) as usize]), "dispatchers": 1 + c.dispatchers % 4}));
            check_acct(c, st)
        },
    );
    let _ = (frame as fn(Link, &Ip, &crate::gen::frames::Tcp) -> Vec<u8>, truncate("", 1));
}

pub fn replay(_ctx: &Ctx, sub: &str, input: &serde_json::Value) -> Result<(), Fail> {
    let v = input["value"].clone();
    let mut st = Stats::new();
    match sub {
        "hash-is-a-function-of-identity" => check_hash(&serde_json::from_value(v).map_err(|e| fail!("bad-replay", "{e}"))?, &mut st),
        "pool-accounting" => check_acct(&serde_json::from_value(v).map_err(|e| fail!("bad-replay", "{e}"))?, &mut st),
        "hash-total-on-arbitrary-frames" => {
            let (c, cut, n, junk, use_junk): (TcpCase, u16, usize, Vec<u8>, bool) = serde_json::from_value(v).map_err(|e| fail!("bad-replay", "{e}"))?;
            let f = c.frame();
            let f = if use_junk { junk } else { f[..crate::engine::idx(cut, f.len() + 1)].to_vec() };
            check_total(&f, n)
        }
        _ => Err(fail!("bad-replay", "unknown sub {sub}")),
    }
}
