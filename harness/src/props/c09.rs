//! C09 — HTTP stream reassembly is invariant to segmentation, sequence origin and arrival order.
use crate::engine::{idx, truncate, Ctx, Fail, SplitMix, Stats};
use crate::gen::frames::{frame, Ip, Ip4, Ip6, Link, Tcp, ACK, PSH, SYN};
use crate::gen::{h2, http1};
use crate::props::c05::http_feed;
use crate::props::c08::cut_positions;
use crate::props::c16::H2Case;
use huginn_net_http::http_process::HttpProcessors;
use proptest::prelude::*;
use serde::{Deserialize, Serialize};
use serde_json::json;

pub const K_GAP: &str = "K-C09-gap";

#[derive(Clone, Debug, Serialize, Deserialize, Hash)]
pub enum Exchange {
    H1 { req: http1::Request, req_body: Vec<u8>, resp: http1::Response, resp_body: Vec<u8> },
    H2 { req: H2Case, resp: H2Case },
}

#[derive(Clone, Debug, Serialize, Deserialize, Hash)]
pub struct FlowCase {
    pub exchange: Exchange,
    pub c_cuts: Vec<u16>,
    pub s_cuts: Vec<u16>,
    pub c_isn: u32,
    pub s_isn: u32,
    /// 0 in order, 1 adjacent swaps, 2 random permutation with the head-terminating segment last, 3 unrestricted permutation, 4 reversed
    pub order: u8,
    pub order_seed: u64,
    /// interleaving of the two directions: 0 all client first, 1 alternate, 2 seeded merge
    pub interleave: u8,
    pub v4: bool,
    /// HTTP/1 heads with bare LF line ends (bit 0: request head, bit 1: response head) - lenient recipients accept them (RFC 7230 3.5)
    #[serde(default)]
    pub lf_heads: u8,
    /// 0 = frames as built, 1 = Ethernet frames zero-padded to the 60-byte minimum, 2 = padding + 4-byte FCS (bytes behind the
    /// IP datagram are not TCP payload)
    #[serde(default)]
    pub wire: u8,
}

fn wireify(wire: u8, mut f: Vec<u8>) -> Vec<u8> {
    if wire % 3 != 0 {
        if f.len() < 60 {
            f.resize(60, 0);
        }
        if wire % 3 == 2 {
            f.extend_from_slice(&[0xde, 0xad, 0xbe, 0xef]);
        }
    }
    f
}

impl FlowCase {
    /// the exchange's byte streams, with the HTTP/1 heads optionally rewritten to bare-LF line ends (bodies untouched)
    pub fn streams(&self) -> (Vec<u8>, usize, Vec<u8>, usize) {
        let (cs, ch, ss, sh) = self.exchange.streams();
        if !matches!(self.exchange, Exchange::H1 { .. }) || self.lf_heads & 3 == 0 {
            return (cs, ch, ss, sh);
        }
        let to_lf = |stream: Vec<u8>, head: usize| -> (Vec<u8>, usize) {
            let mut h: Vec<u8> = Vec::with_capacity(head);
            let mut i = 0;
            while i < head {
                if stream[i] == b'\r' && i + 1 < head && stream[i + 1] == b'\n' {
                    i += 1;
                    continue;
                }
                h.push(stream[i]);
                i += 1;
            }
            let n = h.len();
            h.extend_from_slice(&stream[head..]);
            (h, n)
        };
        let (cs, ch) = if self.lf_heads & 1 != 0 { to_lf(cs, ch) } else { (cs, ch) };
        let (ss, sh) = if self.lf_heads & 2 != 0 { to_lf(ss, sh) } else { (ss, sh) };
        (cs, ch, ss, sh)
    }
}

impl Exchange {
    /// (client stream, length of the client head, server stream, length of the server head)
    pub fn streams(&self) -> (Vec<u8>, usize, Vec<u8>, usize) {
        match self {
            Exchange::H1 { req, req_body, resp, resp_body } => {
                let mut c = req.head();
                let ch = c.len();
                c.extend_from_slice(req_body);
                let mut s = resp.head();
                let sh = s.len();
                s.extend_from_slice(resp_body);
                (c, ch, s, sh)
            }
            Exchange::H2 { req, resp } => {
                let head_len = |c: &H2Case| -> usize {
                    let mut n = if c.request { h2::PREFACE.len() } else { 0 };
                    for p in &c.pre {
                        n += p.bytes().len();
                    }
                    let mut t = h2::DynTable::new();
                    let blk = h2::encode_block(&c.block, &mut t);
                    for f in h2::headers_frames(&blk, &c.framing) {
                        n += f.len();
                    }
                    n
                };
                (req.bytes(), head_len(req), resp.bytes(), head_len(resp))
            }
        }
    }
}

#[derive(Clone, Debug)]
pub struct Pkt {
    pub client: bool,
    /// index of the segment within its direction (None for SYN / SYN+ACK)
    pub seg: Option<usize>,
    pub frame: Vec<u8>,
}

fn ips(v4: bool) -> (Ip, Ip) {
    if v4 {
        (Ip::V4(Ip4 { src: [192, 168, 0, 10], dst: [93, 184, 216, 34], ..Ip4::default() }), Ip::V4(Ip4 { src: [93, 184, 216, 34], dst: [192, 168, 0, 10], ..Ip4::default() }))
    } else {
        let a = Ip6::default();
        let b = Ip6 { src: a.dst, dst: a.src, ..Ip6::default() };
        (Ip::V6(a), Ip::V6(b))
    }
}

fn permute(n: usize, mode: u8, seed: u64, last: Option<usize>) -> Vec<usize> {
    let mut v: Vec<usize> = (0..n).collect();
    let mut r = SplitMix(seed);
    match mode {
        0 => {}
        1 => {
            let mut i = 0;
            while i + 1 < n {
                if r.chance(1, 2) {
                    v.swap(i, i + 1);
                    i += 2;
                } else {
                    i += 1;
                }
            }
        }
        2 | 3 => {
            for i in (1..n).rev() {
                let j = r.below(i as u64 + 1) as usize;
                v.swap(i, j);
            }
            if mode == 2 {
                if let Some(l) = last {
                    // move the head-terminating segment (and everything after it in stream order) to the end, in order
                    let (mut head, mut tail): (Vec<usize>, Vec<usize>) = v.iter().partition(|x| **x < l);
                    tail.sort_unstable();
                    head.append(&mut tail);
                    v = head;
                }
            }
        }
        _ => v.reverse(),
    }
    v
}

/// Build the packet trace of a flow and the per-direction segment boundaries
pub fn build(c: &FlowCase) -> (Vec<Pkt>, Vec<(usize, usize)>, Vec<(usize, usize)>, usize, usize) {
    let (cs, ch, ss, sh) = c.streams();
    let (cip, sip) = ips(c.v4);
    let (cport, sport) = (49152u16, 80u16);
    let mk_segs = |stream: &[u8], cuts: &[u16]| -> Vec<(usize, usize)> {
        let pos = cut_positions(cuts, stream.len());
        let mut out = vec![];
        let mut prev = 0;
        for p in pos {
            out.push((prev, p));
            prev = p;
        }
        if stream.len() > prev || out.is_empty() {
            out.push((prev, stream.len()));
        }
        out.retain(|(a, b)| b > a);
        // no segment above 16000 bytes: an IP datagram holds at most 65535, and streams with several frames near the 16 KiB
        // frame-size limit are longer than that
        let mut bounded = vec![];
        for (a, b) in out {
            let mut x = a;
            while b - x > 16000 {
                bounded.push((x, x + 16000));
                x += 16000;
            }
            bounded.push((x, b));
        }
        bounded
    };
    let csegs = mk_segs(&cs, &c.c_cuts);
    let ssegs = mk_segs(&ss, &c.s_cuts);
    let term = |segs: &[(usize, usize)], head: usize| segs.iter().position(|(_, b)| *b >= head);
    let corder = permute(csegs.len(), c.order, c.order_seed, term(&csegs, ch));
    let sorder = permute(ssegs.len(), c.order, c.order_seed ^ 0xabcdef, term(&ssegs, sh));
    let cpk: Vec<Pkt> = corder
        .iter()
        .map(|i| {
            let (a, b) = csegs[*i];
            let tcp = Tcp { sport: cport, dport: sport, seq: c.c_isn.wrapping_add(1).wrapping_add(a as u32), ack: c.s_isn.wrapping_add(1), flags: ACK | PSH, payload: cs[a..b].to_vec(), ..Tcp::default() };
            Pkt { client: true, seg: Some(*i), frame: wireify(c.wire, frame(Link::Ether, &cip, &tcp)) }
        })
        .collect();
    let spk: Vec<Pkt> = sorder
        .iter()
        .map(|i| {
            let (a, b) = ssegs[*i];
            let tcp = Tcp { sport, dport: cport, seq: c.s_isn.wrapping_add(1).wrapping_add(a as u32), ack: c.c_isn.wrapping_add(1), flags: ACK | PSH, payload: ss[a..b].to_vec(), ..Tcp::default() };
            Pkt { client: false, seg: Some(*i), frame: wireify(c.wire, frame(Link::Ether, &sip, &tcp)) }
        })
        .collect();
    let mut trace = vec![];
    trace.push(Pkt { client: true, seg: None, frame: frame(Link::Ether, &cip, &Tcp { sport: cport, dport: sport, seq: c.c_isn, flags: SYN, ..Tcp::default() }) });
    trace.push(Pkt { client: false, seg: None, frame: frame(Link::Ether, &sip, &Tcp { sport, dport: cport, seq: c.s_isn, ack: c.c_isn.wrapping_add(1), flags: SYN | ACK, ..Tcp::default() }) });
    // interleave
    let (mut ci, mut si) = (cpk.into_iter().peekable(), spk.into_iter().peekable());
    let mut r = SplitMix(c.order_seed ^ 0x5151);
    loop {
        let pick_client = match (ci.peek().is_some(), si.peek().is_some()) {
            (false, false) => break,
            (true, false) => true,
            (false, true) => false,
            (true, true) => match c.interleave % 3 {
                0 => true,
                1 => trace.len() % 2 == 0,
                _ => r.chance(1, 2),
            },
        };
        trace.push(if pick_client { ci.next().unwrap() } else { si.next().unwrap() });
    }
    (trace, csegs, ssegs, ch, sh)
}

fn render_req(o: &huginn_net_http::HttpRequestOutput) -> String {
    format!("{}:{}->{}:{} lang={:?} diag={} sig={:?}", o.source.ip, o.source.port, o.destination.ip, o.destination.port, o.lang, o.diagnosis, o.sig)
}
fn render_resp(o: &huginn_net_http::HttpResponseOutput) -> String {
    format!("{}:{}->{}:{} diag={} sig={:?}", o.source.ip, o.source.port, o.destination.ip, o.destination.port, o.diagnosis, o.sig)
}

/// the reference: unsegmented, in-order delivery
pub fn reference(c: &FlowCase) -> Result<(Option<String>, Option<String>), Fail> {
    let r = FlowCase { c_cuts: vec![], s_cuts: vec![], order: 0, interleave: 0, c_isn: 1000, s_isn: 5000, ..c.clone() };
    let (trace, ..) = build(&r);
    let procs = HttpProcessors::new();
    let mut flows = ttl_cache::TtlCache::new(8);
    let (mut rq, mut rs) = (None, None);
    for p in &trace {
        let out = http_feed(&p.frame, &mut flows, &procs).map_err(|e| fail!("reference:error", "{e}"))?;
        if let Some(q) = out.http_request {
            rq = Some(render_req(&q));
        }
        if let Some(q) = out.http_response {
            rs = Some(render_resp(&q));
        }
    }
    Ok((rq, rs))
}

pub fn check(ctx: &Ctx, c: &FlowCase, st: &mut Stats) -> Result<(), Fail> {
    let (ref_rq, ref_rs) = reference(c)?;
    if ref_rq.is_none() {
        return Err(fail!("reference:request-not-reported-even-unsegmented", "{:?}", truncate(&format!("{:?}", c.exchange), 300)));
    }
    if ref_rs.is_none() {
        return Err(fail!("reference:response-not-reported-even-unsegmented", "{:?}", truncate(&format!("{:?}", c.exchange), 300)));
    }
    let (trace, csegs, ssegs, ch, sh) = build(c);
    let procs = HttpProcessors::new();
    let mut flows = ttl_cache::TtlCache::new(8);
    let mut c_have = vec![false; csegs.len()];
    let mut s_have = vec![false; ssegs.len()];
    let (mut rq_n, mut rs_n) = (0, 0);
    let (mut c_gap, mut s_gap) = (false, false);
    let prefix = |have: &[bool], segs: &[(usize, usize)]| -> (usize, bool) {
        // (contiguous prefix length in bytes, are all delivered segments inside that prefix?)
        let mut n = 0;
        let mut i = 0;
        while i < have.len() && have[i] {
            n = segs[i].1;
            i += 1;
        }
        (n, !have[i..].iter().any(|h| *h))
    };
    for (pi, p) in trace.iter().enumerate() {
        if let Some(s) = p.seg {
            if p.client {
                c_have[s] = true
            } else {
                s_have[s] = true
            }
        }
        let out = http_feed(&p.frame, &mut flows, &procs).map_err(|e| fail!("error", "packet {pi}: {e}"))?;
        // attribution: a report names as its source the sender of the packet it is made on (the endpoints as the decoder reads them)
        let ends = crate::props::c15::decoded_endpoints(&p.frame);
        if let Some(q) = &out.http_request {
            if !p.client {
                return Err(fail!("request-attributed-to-server-packet", "packet {pi}"));
            }
            if let Some((s, d, sp, dp)) = ends {
                if (q.source.ip, q.source.port, q.destination.ip, q.destination.port) != (s, sp, d, dp) {
                    return Err(fail!("request-endpoints-are-not-the-sending-direction", "packet {pi} {s}:{sp} -> {d}:{dp}, reported {}:{} -> {}:{}", q.source.ip, q.source.port, q.destination.ip, q.destination.port));
                }
            }
            rq_n += 1;
            let (pre, contiguous) = prefix(&c_have, &csegs);
            let got = render_req(q);
            if Some(&got) != ref_rq.as_ref() || pre < ch {
                if !contiguous && ctx.is_known(K_GAP) {
                    st.known(K_GAP);
                    c_gap = true;
                } else if pre < ch {
                    return Err(fail!("request-reported-before-head-complete", "packet {pi}: contiguous prefix {pre} bytes, head {ch} bytes (delivered set contiguous: {contiguous})"));
                } else {
                    return Err(fail!("request-differs", "packet {pi}\nexpected {}\ngot      {}", truncate(ref_rq.as_ref().unwrap(), 500), truncate(&got, 500)));
                }
            }
        }
        if let Some(q) = &out.http_response {
            if p.client {
                return Err(fail!("response-attributed-to-client-packet", "packet {pi}"));
            }
            if let Some((s, d, sp, dp)) = ends {
                if (q.source.ip, q.source.port, q.destination.ip, q.destination.port) != (s, sp, d, dp) {
                    return Err(fail!("response-endpoints-are-not-the-sending-direction", "packet {pi} {s}:{sp} -> {d}:{dp}, reported {}:{} -> {}:{}", q.source.ip, q.source.port, q.destination.ip, q.destination.port));
                }
            }
            rs_n += 1;
            let (pre, contiguous) = prefix(&s_have, &ssegs);
            let got = render_resp(q);
            if Some(&got) != ref_rs.as_ref() || pre < sh {
                if !contiguous && ctx.is_known(K_GAP) {
                    st.known(K_GAP);
                    s_gap = true;
                } else if pre < sh {
                    return Err(fail!("response-reported-before-head-complete", "packet {pi}: contiguous prefix {pre} bytes, head {sh} bytes (delivered set contiguous: {contiguous})"));
                } else {
                    return Err(fail!("response-differs", "packet {pi}\nexpected {}\ngot      {}", truncate(ref_rs.as_ref().unwrap(), 500), truncate(&got, 500)));
                }
            }
        }
    }
    if rq_n > 1 {
        return Err(fail!("request-reported-more-than-once", "{rq_n}"));
    }
    if rs_n > 1 {
        return Err(fail!("response-reported-more-than-once", "{rs_n}"));
    }
    if rq_n == 0 && !c_gap {
        return Err(fail!("request-never-reported", "isn {:#x}, {} segments, order {}", c.c_isn, csegs.len(), c.order));
    }
    if rs_n == 0 && !s_gap {
        return Err(fail!("response-never-reported", "isn {:#x}, {} segments, order {}", c.s_isn, ssegs.len(), c.order));
    }
    Ok(())
}

pub fn isn(stream_len_hint: u32) -> impl Strategy<Value = u32> {
    prop_oneof![
        1 => Just(0u32),
        1 => Just(1u32),
        2 => any::<u32>(),
        1 => (0u32..5000).prop_map(|k| 0x8000_0000u32.wrapping_sub(2500).wrapping_add(k)),
        4 => (0u32..stream_len_hint + 64).prop_map(|k| u32::MAX.wrapping_sub(k)),
    ]
}

pub fn exchange() -> impl Strategy<Value = Exchange> {
    prop_oneof![
        3 => (http1::request(), http1::body(), http1::response(), http1::body()).prop_map(|(mut req, req_body, mut resp, resp_body)| {
            req.headers.truncate(30);
            resp.headers.truncate(30);
            Exchange::H1 { req, req_body, resp, resp_body }
        }),
        2 => (crate::props::c16::h2_case(), crate::props::c16::h2_case()).prop_map(|(mut a, mut b)| {
            // force a request / response pair
            if !a.request {
                std::mem::swap(&mut a, &mut b);
            }
            if !a.request || b.request {
                // both same kind: rebuild from simple parts
                let rq = H2Case { request: true, block: if a.request { a.block.clone() } else { simple_req_block() }, framing: a.framing.clone(), pre: a.pre.clone(), body: a.body.clone() , hostile_tail: vec![], flag_xor: 0 };
                let mut rs_pre = b.pre.clone();
                if !matches!(rs_pre.first(), Some(crate::props::c16::PreFrame::Settings(_))) {
                    rs_pre.insert(0, crate::props::c16::PreFrame::Settings(vec![(3, 100)]));
                }
                let mut fr = b.framing.clone();
                fr.reserved_bit = false;
                let rs = H2Case { request: false, block: if !b.request { b.block.clone() } else { simple_resp_block() }, framing: fr, pre: rs_pre, body: b.body.clone() , hostile_tail: vec![], flag_xor: 0 };
                return Exchange::H2 { req: rq, resp: rs };
            }
            Exchange::H2 { req: a, resp: b }
        }),
    ]
}

fn simple_req_block() -> h2::Block {
    let f = |n: &str, v: &str| h2::Field { name: n.into(), value: v.as_bytes().to_vec(), repr: h2::Repr::PreferIndexed, name_indexed: true, huffman_name: false, huffman_value: true };
    h2::Block { size_updates: vec![], fields: vec![f(":method", "GET"), f(":path", "/x"), f(":scheme", "https"), f(":authority", "example.com"), f("user-agent", "curl/8.0"), f("accept", "*/*")] }
}
fn simple_resp_block() -> h2::Block {
    let f = |n: &str, v: &str| h2::Field { name: n.into(), value: v.as_bytes().to_vec(), repr: h2::Repr::LiteralIndexed, name_indexed: true, huffman_name: false, huffman_value: false };
    h2::Block { size_updates: vec![], fields: vec![f(":status", "200"), f("server", "nginx"), f("content-type", "text/html")] }
}

pub fn flow_case(orders: &'static [u8]) -> impl Strategy<Value = FlowCase> {
    (
        exchange(),
        proptest::collection::vec(prop_oneof![2 => any::<u16>(), 1 => 0u16..4000], 0..8),
        proptest::collection::vec(prop_oneof![2 => any::<u16>(), 1 => 0u16..4000], 0..8),
        isn(3000),
        isn(3000),
        (0usize..orders.len()).prop_map(move |i| orders[i]),
        any::<u64>(),
        0u8..3,
        proptest::bool::weighted(0.8),
        prop_oneof![3 => Just(0u8), 1 => 1u8..4],
        prop_oneof![3 => Just(0u8), 1 => Just(1u8), 1 => Just(2u8)],
    )
        .prop_map(|(exchange, c_cuts, s_cuts, c_isn, s_isn, order, order_seed, interleave, v4, lf_heads, wire)| FlowCase { exchange, c_cuts, s_cuts, c_isn, s_isn, order, order_seed, interleave, v4, lf_heads, wire })
}

fn classify(c: &FlowCase, st: &mut Stats) -> bool {
    let (cs, _, ss, _) = c.streams();
    let near = |isn: u32, len: usize| (u32::MAX - isn) as usize <= len + 64;
    let wrap = near(c.c_isn, cs.len()) || near(c.s_isn, ss.len());
    if wrap {
        st.class("isn-within-one-stream-length-of-wrap");
    }
    st.class(match c.order {
        0 => "order:in-order",
        1 => "order:adjacent-swaps",
        2 => "order:permuted-head-terminator-last",
        3 => "order:unrestricted-permutation",
        _ => "order:reversed",
    });
    st.class(match c.exchange {
        Exchange::H1 { .. } => "HTTP/1",
        Exchange::H2 { .. } => "HTTP/2",
    });
    (c.c_cuts.len() >= 2 || c.s_cuts.len() >= 2) && (c.order != 0 || wrap)
}

pub fn run(ctx: &Ctx) {
    ctx.assume("connections are opened by a SYN (the statement's premise); segments do not overlap and are not retransmitted; data segments carry ACK|PSH");
    ctx.assume("a report whose delivered segments do not form a contiguous prefix of the stream is the known finding K-C09-gap when listed; in-order deliveries and permutations that keep every delivered set contiguous stay strict");
    let n = ctx.tier.pick(40_000, 800_000);
    ctx.run_prop(
        "in-order-segmentations",
        "proptest HTTP/1.x and HTTP/2 request+response streams x 0..8 cut positions per direction x ISN classes {0, 1, random, around 2^31, within one stream length (+64) of 2^32} x 3 interleavings of the directions, in-order arrival; oracle: the unsegmented in-order delivery of the same streams; reported at most once, on the right direction, never before the head is complete; non-trivial: >= 3 segments in a direction and an ISN near the wrap",
        n,
        || flow_case(&[0]),
        |c: &FlowCase, st: &mut Stats| {
            if classify(c, st) {
                st.nontrivial(c);
            }
            st.sample(|| json!({"exchange": truncate(&format!("{:?}", c.exchange), 200), "c_isn": c.c_isn, "s_isn": c.s_isn, "c_cuts": c.c_cuts, "s_cuts": c.s_cuts}));
            check(ctx, c, st)
        },
    );
    let n = ctx.tier.pick(40_000, 800_000);
    ctx.run_prop(
        "permuted-arrival",
        "same flows with adjacent swaps, random permutations that deliver the head-terminating segment (and everything after it) last, unrestricted permutations and reversed arrival; non-trivial: >= 3 segments in a direction and a non-identity order",
        n,
        || flow_case(&[1, 2, 2, 3, 4]),
        |c: &FlowCase, st: &mut Stats| {
            if classify(c, st) {
                st.nontrivial(c);
            }
            st.sample(|| json!({"order": c.order, "c_isn": c.c_isn, "c_cuts": c.c_cuts, "s_cuts": c.s_cuts}));
            check(ctx, c, st)
        },
    );
    let _ = idx(0, 1);
}

pub fn replay(ctx: &Ctx, _sub: &str, input: &serde_json::Value) -> Result<(), Fail> {
    let c: FlowCase = serde_json::from_value(input["value"].clone()).map_err(|e| fail!("bad-replay", "{e}"))?;
    let mut st = Stats::new();
    check(ctx, &c, &mut st)
}
