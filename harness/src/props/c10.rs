//! C10 — parallel mode is observationally equivalent to sequential mode.
use crate::drive::{self, HttpState, TcpOut, TlsState};
use crate::engine::{truncate, Ctx, Fail, Stats};
use crate::gen::trace::{self, Packet, TraceCase};
use crate::pool::{run_pool, PoolCfg, PoolKind};
use proptest::prelude::*;
use serde::{Deserialize, Serialize};
use serde_json::json;
use std::collections::{BTreeMap, HashMap};

#[derive(Clone, Debug, Serialize, Deserialize, Hash)]
pub struct ParCase {
    pub trace: TraceCase,
    pub kind: u8,
    pub workers: u8,
    pub batch: u8,
    pub timeout_ms: u8,
    pub perturb: u64,
}

pub fn sequential(kind: PoolKind, pk: &[Packet]) -> Vec<(String, String)> {
    let mut out = vec![];
    match kind {
        PoolKind::Tcp => {
            let mut t: drive::TcpTracker = ttl_cache::TtlCache::new(1000);
            for p in pk {
                drive::set_clock(Some(p.at));
                if let TcpOut::Ok(r) = drive::tcp_packet(&p.frame, &mut t, true) {
                    out.extend(drive::tcp_keyed(&r));
                }
            }
        }
        PoolKind::Http => {
            let mut h = HttpState::new(1000);
            for p in pk {
                if let Ok(r) = h.feed(&p.frame, true) {
                    out.extend(drive::http_keyed(&r));
                }
            }
        }
        PoolKind::Tls => {
            let mut t = TlsState::new(1000);
            for p in pk {
                if let Ok(Some(r)) = t.feed(&p.frame) {
                    out.extend(drive::tls_keyed(&r));
                }
            }
        }
    }
    drive::set_clock(None);
    out
}

fn by_key(v: &[(String, String)]) -> BTreeMap<String, Vec<String>> {
    let mut m: BTreeMap<String, Vec<String>> = BTreeMap::new();
    for (k, s) in v {
        m.entry(k.clone()).or_default().push(s.clone());
    }
    m
}

pub fn check(c: &ParCase, st: &mut Stats) -> Result<(), Fail> {
    let kind = [PoolKind::Tcp, PoolKind::Http, PoolKind::Tls][(c.kind % 3) as usize];
    let pk = c.trace.interleaved();
    let frames: Vec<Vec<u8>> = pk.iter().map(|p| p.frame.clone()).collect();
    let mut clock: HashMap<u32, u64> = HashMap::new();
    for p in &pk {
        if let Some(v) = p.tsval {
            clock.insert(v, p.at);
        }
    }
    let workers = 1 + (c.workers % 16) as usize;
    // half of the cases run with a tight capacity: just enough flow-table entries for every connection of the trace even if
    // all of them reach one worker (HTTP: one entry per connection; TLS: one per direction; TCP: one per direction and role) - `max_connections` is
    // documented as a per-worker capacity, so nothing may be evicted and the sequential analyzer (capacity 1000) is the reference
    let tight = c.batch & 0x40 != 0;
    let n_conn = c.trace.conns.len().max(1);
    let max_conn = if !tight { 1000 } else { match kind { PoolKind::Http => n_conn, PoolKind::Tls => 2 * n_conn, PoolKind::Tcp => 4 * n_conn } };
    if tight {
        st.class("tight-capacity");
    }
    // one case in twelve has a slow capture source: pauses of up to 4 ms between packets against a worker timeout of 1 ms, so that
    // workers run into their idle timeout in the middle of connections (a legal schedule like any other)
    let slow = c.perturb % 12 == 0;
    if slow {
        st.class("slow-dispatcher(worker-timeouts-inside-connections)");
    }
    let cfg = PoolCfg { workers, queue: frames.len() + 16, batch: 1 + (c.batch % 64) as usize, timeout_ms: if slow { 1 } else { 1 + (c.timeout_ms % 20) as u64 }, dispatchers: 1, perturb: Some(c.perturb), max_sleep_us: if slow { 4000 } else { 200 }, max_conn };
    let reference = sequential(kind, &pk);
    let run = run_pool(kind, &frames, &cfg, None, Some(clock)).map_err(|e| fail!("pool:new", "{e}"))?;
    if let Some(p) = &run.worker_panic {
        return Err(Fail::new(format!("{:?}:worker-{}", kind, crate::engine::panic_key(p)), format!("a worker thread panicked: {p}")));
    }
    if run.drain_timeout {
        st.class("drain-timeout(inconclusive)");
        st.discards += 1;
        return Ok(());
    }
    if run.queued.iter().any(|q| !*q) {
        // premise: no queue overflows (TLS: frames whose flow cannot be decoded are dropped by design)
        if kind != PoolKind::Tls {
            return Err(fail!(format!("{:?}:dropped-although-queue-large-enough", kind), "{} of {} frames dropped", run.queued.iter().filter(|q| !**q).count(), frames.len()));
        }
    }
    let used: std::collections::BTreeSet<usize> = run.analysed.iter().map(|(w, _)| *w).collect();
    if used.len() >= 2 && c.trace.conns.iter().any(|x| { let (a, b) = x.streams(); !a.is_empty() && !b.is_empty() }) {
        st.nontrivial(c);
    }
    st.class(&format!("{:?}", kind));
    let (rm, pm) = (by_key(&reference), by_key(&run.results));
    // multiset equality
    let mut a: Vec<&(String, String)> = reference.iter().collect();
    let mut b: Vec<&(String, String)> = run.results.iter().collect();
    a.sort();
    b.sort();
    if a != b {
        let missing: Vec<&&(String, String)> = a.iter().filter(|x| !b.contains(x)).collect();
        let extra: Vec<&&(String, String)> = b.iter().filter(|x| !a.contains(x)).collect();
        let what = if let Some(m) = missing.first() {
            if m.1.starts_with("RESP") { "response-found-sequentially-but-not-in-parallel" } else { "result-missing-in-parallel" }
        } else {
            "extra-or-different-result-in-parallel"
        };
        return Err(fail!(
            format!("{:?}:{what}", kind),
            "workers {workers} batch {} : sequential {} results, parallel {}\nmissing: {}\nextra:   {}",
            cfg.batch,
            a.len(),
            b.len(),
            truncate(&format!("{:?}", missing.first()), 500),
            truncate(&format!("{:?}", extra.first()), 500)
        ));
    }
    // per-unit order
    for (k, seq) in &rm {
        if pm.get(k) != Some(seq) {
            return Err(fail!(format!("{:?}:order-within-one-unit-changed", kind), "unit {k}: sequential order {:?} parallel {:?}", seq.iter().map(|s| truncate(s, 60)).collect::<Vec<_>>(), pm.get(k).map(|v| v.iter().map(|s| truncate(s, 60)).collect::<Vec<_>>())));
        }
    }
    Ok(())
}

pub fn par_case() -> impl Strategy<Value = ParCase> {
    (trace::trace_case(8, true), 0u8..3, any::<u8>(), any::<u8>(), any::<u8>(), any::<u64>()).prop_map(|(trace, kind, workers, batch, timeout_ms, perturb)| ParCase { trace, kind, workers, batch, timeout_ms, perturb })
}

pub fn run(ctx: &Ctx) {
    ctx.assume("queues are sized so that nothing overflows (the property's premise); one dispatcher thread feeds the pool in trace order; thread interleavings are sampled through seeded perturbation at the verif-hooks points, not enumerated");
    ctx.assume("arrival times: hook H1 with a process-wide TSval -> time table (TSvals are unique per trace), identical for the sequential reference");
    ctx.shrink_iters.store(25, std::sync::atomic::Ordering::Relaxed);
    let n = ctx.tier.pick(5_000, 80_000);
    ctx.run_prop(
        "pool-vs-sequential",
        "proptest traces of 1..8 complete interleaved connections (timestamped handshakes, HTTP/1, HTTP/2, segmented ClientHellos, opaque data; arbitrary endpoints from a 6-address pool; Ethernet / raw IP) x {TCP, HTTP, TLS} pool x workers 1..16 x batch 1..64 x timeout 1..20 ms x seeded schedule perturbation; oracle: the same trace through the sequential per-packet path: results equal as a multiset and, per connection (per sending host for TCP), as a sequence; non-trivial: >= 2 workers received packets and a connection carries payload in both directions",
        n,
        par_case,
        |c: &ParCase, st: &mut Stats| {
            st.sample(|| json!({"kind": c.kind % 3, "workers": 1 + c.workers % 16, "connections": c.trace.conns.len(), "packets": c.trace.interleaved().len()}));
            check(c, st)
        },
    );
}

/// pools that have a filter installed: the single-threaded analyzer with the same filter is the reference
/// (generator and oracle shared with C15's pool sub-check)
pub fn run_filtered(ctx: &Ctx) {
    use crate::props::c15;
    ctx.shrink_iters.store(15, std::sync::atomic::Ordering::Relaxed);
    let n = ctx.tier.pick(1_200, 20_000);
    ctx.run_prop(
        "pool-with-filter-vs-sequential",
        "traces x filters built from the trace's own endpoints, through the TCP / HTTP / TLS worker pools (1..6 workers, batch 16) with the filter installed; oracle: the sequential analyzer on the sub-trace the filter admits, results compared as multisets; non-trivial: the filter admits a proper non-empty subset",
        n,
        || (c15::filt_case(), 0u8..3, 1usize..7),
        |(c, k, w): &(c15::FiltCase, u8, usize), st: &mut Stats| {
            st.sample(|| json!({"filter": format!("{:?}", c15::filter_of(c)), "pool": k % 3, "workers": w}));
            c15::check_pool(c, *k, *w, st)
        },
    );
    ctx.shrink_iters.store(1200, std::sync::atomic::Ordering::Relaxed);
}

// ---------------------------------------------------------------------------------------------
// parallel mode as a user sets it up: with_config(..) + with_filter + init_pool(sender) + analyze_pcap(..)
// ---------------------------------------------------------------------------------------------
/// collect everything the workers deliver until every sender is gone (the analyzer, and with it the pool, is dropped first);
/// None = the channel did not close within the cap (reported as inconclusive, never as a violation)
fn drain_closed<T>(rx: std::sync::mpsc::Receiver<T>, cap_s: u64) -> Option<Vec<T>> {
    let end = std::time::Instant::now() + std::time::Duration::from_secs(cap_s);
    let mut out = vec![];
    loop {
        match rx.recv_timeout(std::time::Duration::from_millis(200)) {
            Ok(v) => out.push(v),
            Err(std::sync::mpsc::RecvTimeoutError::Disconnected) => return Some(out),
            Err(std::sync::mpsc::RecvTimeoutError::Timeout) => {
                crate::engine::watchdog_touch();
                if std::time::Instant::now() > end {
                    return None;
                }
            }
        }
    }
}

/// results of the analyzer's own parallel mode on a capture file; Ok(None) = inconclusive (result channel never closed)
pub fn api_parallel(kind: PoolKind, frames: &[Vec<u8>], max_conn: usize, workers: usize, queue: usize, batch: usize, timeout_ms: u64) -> Result<Option<Vec<(String, String)>>, String> {
    api_parallel_filtered(kind, frames, None, max_conn, workers, queue, batch, timeout_ms)
}
#[allow(clippy::too_many_arguments)]
pub fn api_parallel_filtered(kind: PoolKind, frames: &[Vec<u8>], filter: Option<&crate::props::c14::FilterSpec>, max_conn: usize, workers: usize, queue: usize, batch: usize, timeout_ms: u64) -> Result<Option<Vec<(String, String)>>, String> {
    use crate::props::c14;
    let path = drive::scratch_file("c10api");
    let refs: Vec<&[u8]> = frames.iter().map(|f| f.as_slice()).collect();
    drive::write_pcap(&path, &refs);
    let p = path.to_string_lossy().to_string();
    let out = match kind {
        PoolKind::Tcp => {
            let (tx, rx) = std::sync::mpsc::channel();
            let mut a = huginn_net_tcp::HuginnNetTcp::with_config(Some(crate::props::c15::arc_db()), max_conn, workers, queue, batch, timeout_ms).map_err(|e| e.to_string())?;
            if let Some(f) = filter {
                a = a.with_filter(c14::tcp_cfg(f));
            }
            a.init_pool(tx.clone()).map_err(|e| e.to_string())?;
            a.analyze_pcap(&p, tx, None).map_err(|e| e.to_string())?;
            drop(a);
            drain_closed(rx, 20).map(|v| v.iter().flat_map(drive::tcp_keyed).collect())
        }
        PoolKind::Http => {
            let (tx, rx) = std::sync::mpsc::channel();
            let mut a = huginn_net_http::HuginnNetHttp::with_config(Some(crate::props::c15::arc_db()), max_conn, workers, queue, batch, timeout_ms).map_err(|e| e.to_string())?;
            if let Some(f) = filter {
                a = a.with_filter(c14::http_cfg(f));
            }
            a.init_pool(tx.clone()).map_err(|e| e.to_string())?;
            a.analyze_pcap(&p, tx, None).map_err(|e| e.to_string())?;
            drop(a);
            drain_closed(rx, 20).map(|v| v.iter().flat_map(drive::http_keyed).collect())
        }
        PoolKind::Tls => {
            let (tx, rx) = std::sync::mpsc::channel();
            let mut a = huginn_net_tls::HuginnNetTls::with_config_and_max_connections(workers, queue, batch, timeout_ms, max_conn);
            if let Some(f) = filter {
                a = a.with_filter(c14::tls_cfg(f));
            }
            a.init_pool(tx.clone()).map_err(|e| e.to_string())?;
            a.analyze_pcap(&p, tx, None).map_err(|e| e.to_string())?;
            drop(a);
            drain_closed(rx, 20).map(|v| v.iter().flat_map(drive::tls_keyed).collect())
        }
    };
    let _ = std::fs::remove_file(&path);
    Ok(out)
}

pub fn check_api(c: &ParCase, st: &mut Stats) -> Result<(), Fail> {
    let kind = [PoolKind::Tcp, PoolKind::Http, PoolKind::Tls][(c.kind % 3) as usize];
    let pk = c.trace.interleaved();
    let frames: Vec<Vec<u8>> = pk.iter().map(|p| p.frame.clone()).collect();
    let mut clock: HashMap<u32, u64> = HashMap::new();
    for p in &pk {
        if let Some(v) = p.tsval {
            clock.insert(v, p.at);
        }
    }
    let workers = 1 + (c.workers % 8) as usize;
    let n_conn = c.trace.conns.len().max(1);
    // a capacity that differs from every other number of the configuration (a transposed argument shows), and holds the trace
    let max_conn = match kind { PoolKind::Http => n_conn, PoolKind::Tls => 2 * n_conn, PoolKind::Tcp => 4 * n_conn };
    let queue = frames.len() + 16 + 2 * max_conn;
    let batch = 1 + (c.batch % 64) as usize;
    let timeout_ms = 1 + (c.timeout_ms % 20) as u64;
    let reference = sequential(kind, &pk);
    let _guard = crate::pool::POOL_LOCK.lock().unwrap_or_else(|e| e.into_inner());
    huginn_net_tcp::verif_hooks::set_global_clock_table(Some(clock));
    let panics_before = crate::engine::WORKER_PANICS.load(std::sync::atomic::Ordering::SeqCst);
    let got = api_parallel(kind, &frames, max_conn, workers, queue, batch, timeout_ms);
    huginn_net_tcp::verif_hooks::set_global_clock_table(None);
    drop(_guard);
    if crate::engine::WORKER_PANICS.load(std::sync::atomic::Ordering::SeqCst) != panics_before {
        return Err(fail!(format!("{:?}:api-parallel:worker-panic", kind), "a worker thread panicked"));
    }
    let got = match got.map_err(|e| fail!(format!("{:?}:api-parallel:setup", kind), "{e}"))? {
        Some(g) => g,
        None => {
            st.class("result-channel-not-closed(inconclusive)");
            st.discards += 1;
            return Ok(());
        }
    };
    if workers >= 2 && reference.len() >= 2 {
        st.nontrivial(c);
    }
    st.class(&format!("{:?}", kind));
    let mut a: Vec<&(String, String)> = reference.iter().collect();
    let mut b: Vec<&(String, String)> = got.iter().collect();
    a.sort();
    b.sort();
    if a != b {
        let missing: Vec<&&(String, String)> = a.iter().filter(|x| !b.contains(x)).collect();
        let extra: Vec<&&(String, String)> = b.iter().filter(|x| !a.contains(x)).collect();
        let what = if !missing.is_empty() { "result-missing-in-parallel-mode" } else { "extra-or-different-result-in-parallel-mode" };
        return Err(fail!(
            format!("{:?}:api-parallel:{what}", kind),
            "with_config(max_connections {max_conn}, workers {workers}, queue {queue}, batch {batch}, timeout {timeout_ms}) + init_pool + analyze_pcap: sequential {} results, parallel mode {}\nmissing: {}\nextra:   {}",
            a.len(),
            b.len(),
            truncate(&format!("{:?}", missing.first()), 500),
            truncate(&format!("{:?}", extra.first()), 500)
        ));
    }
    let (rm, pm) = (by_key(&reference), by_key(&got));
    for (k, seq) in &rm {
        if pm.get(k) != Some(seq) {
            return Err(fail!(format!("{:?}:api-parallel:order-within-one-unit-changed", kind), "unit {k}"));
        }
    }
    Ok(())
}

pub fn run_api(ctx: &Ctx) {
    ctx.shrink_iters.store(15, std::sync::atomic::Ordering::Relaxed);
    let n = ctx.tier.pick(1_500, 30_000);
    ctx.run_prop(
        "parallel-mode-api-vs-sequential",
        "the trace generator of pool-vs-sequential through parallel mode as a user sets it up: HuginnNetTcp / HuginnNetHttp::with_config(db, max_connections, workers 1..8, queue, batch 1..64, timeout 1..20 ms) resp. HuginnNetTls::with_config_and_max_connections, init_pool(sender), analyze_pcap(generated capture file); every configuration number is different (capacity = what holds the trace's connections, queue larger than the trace) so that a transposed argument shows; results collected until the workers have closed the result channel; oracle: multiset and per-unit order of the sequential analyzer; non-trivial: >= 2 workers and >= 2 results",
        n,
        par_case,
        |c: &ParCase, st: &mut Stats| {
            st.sample(|| json!({"kind": c.kind % 3, "workers": 1 + c.workers % 8, "connections": c.trace.conns.len(), "packets": c.trace.interleaved().len()}));
            check_api(c, st)
        },
    );
    ctx.shrink_iters.store(1200, std::sync::atomic::Ordering::Relaxed);
}

pub fn replay(_ctx: &Ctx, _sub: &str, input: &serde_json::Value) -> Result<(), Fail> {
    if _sub == "parallel-mode-api-vs-sequential" {
        let c: ParCase = serde_json::from_value(input["value"].clone()).map_err(|e| fail!("bad-replay", "{e}"))?;
        let mut st = Stats::new();
        return check_api(&c, &mut st);
    }
    if _sub == "pool-with-filter-vs-sequential" {
        let (c, k, w): (crate::props::c15::FiltCase, u8, usize) = serde_json::from_value(input["value"].clone()).map_err(|e| fail!("bad-replay", "{e}"))?;
        let mut st = Stats::new();
        return crate::props::c15::check_pool(&c, k, w, &mut st);
    }
    let c: ParCase = serde_json::from_value(input["value"].clone()).map_err(|e| fail!("bad-replay", "{e}"))?;
    let mut st = Stats::new();
    check(&c, &mut st)
}
