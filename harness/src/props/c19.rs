//! C19 — uptime estimates are sound for steady clocks and withheld otherwise.
use crate::drive::{self, TcpOut};
use crate::engine::{Ctx, Fail, Stats};
use crate::gen::frames::{self as fr, frame, Ip, Ip4, Ip6, Link, Tcp};
use crate::model::tcp::OptItem;
use proptest::prelude::*;
use serde::{Deserialize, Serialize};
use serde_json::json;
use std::collections::HashMap;

#[derive(Clone, Debug, Serialize, Deserialize, Hash, PartialEq)]
pub struct Seg {
    /// true: sent by the endpoint that opened the connection (high port), false: by the responder
    pub from_a: bool,
    pub flags: u8,
    pub tsval: u32,
    /// arrival time in ms
    pub at: u64,
}
#[derive(Clone, Debug, Serialize, Deserialize, Hash)]
pub struct UpCase {
    pub v4: bool,
    pub a_port: u16,
    pub b_port: u16,
    pub segs: Vec<Seg>,
}

#[derive(Clone, Debug, PartialEq)]
pub struct ExpUptime {
    pub client: bool,
    pub freq: u32,
    pub days: u32,
    pub hours: u32,
    pub min: u32,
    pub up_mod_days: u32,
}

fn guess(raw: f64, base: f64) -> Option<f64> {
    let m = (raw / base).round();
    if m <= 0.0 {
        return None;
    }
    let n = raw / m;
    if (n - base).abs() <= base * 0.10 {
        Some(base * m)
    } else {
        None
    }
}
fn p0f_round(raw: f64) -> u32 {
    let f = raw as u32;
    match f {
        0 => 1,
        1..=10 => f,
        11..=50 => (f + 3) / 5 * 5,
        51..=100 => (f + 7) / 10 * 10,
        101..=500 => (f + 33) / 50 * 50,
        _ => (f + 67) / 100 * 100,
    }
}
/// the documented grid: within 10 % of 1000 -> 1000; within 10 % of a multiple of 100 -> that multiple; else the p0f range rounding
pub fn grid(raw: f64) -> u32 {
    if let Some(f) = guess(raw, 1000.0) {
        f as u32
    } else if let Some(f) = guess(raw, 100.0) {
        f as u32
    } else {
        p0f_round(raw)
    }
}
/// is `raw` so close to a decision boundary of the grid that float rounding may legitimately flip it?
pub fn near_boundary(raw: f64) -> bool {
    let eps = raw * 0.005 + 1e-9;
    grid(raw - eps) != grid(raw + eps) || (raw - eps).floor() != (raw + eps).floor() && raw < 520.0 && p0f_round(raw - eps) != p0f_round(raw + eps)
}

pub fn uptime_of(ts: u32, freq: u32) -> (u32, u32, u32, u32) {
    let f = freq as f64;
    let secs = ts as f64 / f;
    let days = (secs / 86400.0) as u32;
    let hours = ((secs % 86400.0) / 3600.0) as u32;
    let min = ((secs % 3600.0) / 60.0) as u32;
    let modd = (4294967296.0 / (f * 86400.0)) as u32;
    (days, hours, min, modd)
}

pub fn is_client(flags: u8, sport: u16, dport: u16) -> bool {
    if flags & fr::SYN != 0 && flags & fr::ACK == 0 {
        true
    } else if flags & fr::SYN != 0 && flags & fr::ACK != 0 {
        false
    } else {
        sport > 1024 && dport <= 1024
    }
}

#[derive(Clone)]
enum Track {
    Ref(u32, u64),
    Bad,
}

/// reference model: expected output per segment (None = nothing), plus whether equality of the frequency is demanded
pub fn model(c: &UpCase) -> Vec<(Option<ExpUptime>, bool, &'static str)> {
    let mut state: HashMap<(bool, bool), Track> = HashMap::new(); // (direction a->b?, is_client)
    let mut out = vec![];
    for s in &c.segs {
        let (sp, dp) = if s.from_a { (c.a_port, c.b_port) } else { (c.b_port, c.a_port) };
        if !crate::model::tcp::flags_accepted(s.flags) {
            out.push((None, true, "flags-rejected"));
            continue;
        }
        let cl = is_client(s.flags, sp, dp);
        let key = (s.from_a, cl);
        let cur = state.get(&key).cloned();
        match cur {
            None => {
                state.insert(key, Track::Ref(s.tsval, s.at));
                out.push((None, true, "first"));
            }
            Some(Track::Bad) => out.push((None, true, "marked-bad")),
            Some(Track::Ref(rts, rat)) => {
                let ms = s.at.saturating_sub(rat);
                let tsd = s.tsval.wrapping_sub(rts);
                let mut bad = |st: &mut HashMap<(bool, bool), Track>| {
                    st.insert(key, Track::Bad);
                };
                if !(25..=600_000).contains(&ms) {
                    bad(&mut state);
                    out.push((None, true, "interval-out-of-bounds"));
                    continue;
                }
                let backward = tsd > !tsd;
                let ticks = if backward { !tsd } else { tsd };
                if ticks < 5 {
                    bad(&mut state);
                    out.push((None, true, "too-few-ticks"));
                    continue;
                }
                if backward && ms < 100 && (ticks as f64) > 15000.0 {
                    bad(&mut state);
                    out.push((None, true, "backward-within-grace"));
                    continue;
                }
                let raw = ticks as f64 * 1000.0 / ms as f64;
                if !(1.0..=1500.0).contains(&raw) {
                    bad(&mut state);
                    out.push((None, true, "rate-out-of-bounds"));
                    continue;
                }
                let f = grid(raw);
                let (days, hours, min, modd) = uptime_of(s.tsval, f);
                // at the very edges of the rate bounds float rounding decides in/out: not demanded
                let edge = raw < 1.0 + 1e-6 || raw > 1500.0 - 1e-6;
                out.push((Some(ExpUptime { client: cl, freq: f, days, hours, min, up_mod_days: modd }), !near_boundary(raw) && !edge, if backward { "computed-backward" } else { "computed" }));
            }
        }
    }
    out
}

pub fn build_frames(c: &UpCase) -> Vec<Vec<u8>> {
    build_frames_at(c, [10, 1, 1, 1])
}
/// `a4`: IPv4 address of endpoint A (IPv4 cases only)
pub fn build_frames_at(c: &UpCase, a4: [u8; 4]) -> Vec<Vec<u8>> {
    let (ipa, ipb) = if c.v4 {
        let a = Ip4 { src: a4, dst: [10, 2, 2, 2], ..Ip4::default() };
        let b = Ip4 { src: [10, 2, 2, 2], dst: a4, ..Ip4::default() };
        (Ip::V4(a), Ip::V4(b))
    } else {
        let a = Ip6::default();
        let b = Ip6 { src: a.dst, dst: a.src, ..Ip6::default() };
        (Ip::V6(a), Ip::V6(b))
    };
    c.segs
        .iter()
        .map(|s| {
            let (ip, sp, dp) = if s.from_a { (&ipa, c.a_port, c.b_port) } else { (&ipb, c.b_port, c.a_port) };
            let opts = vec![OptItem::Nop, OptItem::Nop, OptItem::Ts(s.tsval, 1)];
            let tcp = Tcp { sport: sp, dport: dp, flags: s.flags, ack: if s.flags & fr::ACK != 0 { 1 } else { 0 }, options: crate::model::tcp::encode_opts(&opts), ..Tcp::default() };
            frame(Link::Ether, ip, &tcp)
        })
        .collect()
}

fn cmp(seg_i: usize, exp: &(Option<ExpUptime>, bool, &'static str), got_c: Option<&huginn_net_tcp::output::UptimeOutput>, got_s: Option<&huginn_net_tcp::output::UptimeOutput>, who: &str) -> Result<(), Fail> {
    match &exp.0 {
        None => {
            if got_c.is_some() || got_s.is_some() {
                return Err(fail!(format!("{who}:reported-although-withheld-expected:{}", exp.2), "segment {seg_i}: got client {:?} server {:?}", got_c, got_s));
            }
        }
        Some(e) => {
            let (got, other) = if e.client { (got_c, got_s) } else { (got_s, got_c) };
            if other.is_some() {
                return Err(fail!(format!("{who}:wrong-role-slot"), "segment {seg_i}: expected role client={} got client {:?} server {:?}", e.client, got_c, got_s));
            }
            let g = match got {
                Some(g) => g,
                None => return Err(fail!(format!("{who}:estimate-missing"), "segment {seg_i}: expected {:?}", e)),
            };
            let role_ok = matches!((&g.role, e.client), (huginn_net_tcp::output::UptimeRole::Client, true) | (huginn_net_tcp::output::UptimeRole::Server, false));
            if !role_ok {
                return Err(fail!(format!("{who}:role-label"), "segment {seg_i}: expected client={} got {:?}", e.client, g.role));
            }
            if exp.1 {
                if g.freq != e.freq as f64 {
                    return Err(fail!(format!("{who}:frequency"), "segment {seg_i}: expected {} Hz got {} Hz", e.freq, g.freq));
                }
                if (g.days, g.hours, g.min, g.up_mod_days) != (e.days, e.hours, e.min, e.up_mod_days) {
                    return Err(fail!(format!("{who}:uptime-fields"), "segment {seg_i}: expected {:?} got days {} hours {} min {} mod {}", e, g.days, g.hours, g.min, g.up_mod_days));
                }
            } else {
                // near a grid boundary: only consistency of the reported fields with the reported frequency
                if !(1.0..=1500.0).contains(&g.freq) {
                    return Err(fail!(format!("{who}:frequency-out-of-range"), "segment {seg_i}: {}", g.freq));
                }
            }
            if g.hours >= 24 || g.min >= 60 {
                return Err(fail!(format!("{who}:uptime-split"), "hours {} min {}", g.hours, g.min));
            }
        }
    }
    Ok(())
}

pub fn check(c: &UpCase, st: &mut Stats, unified: bool) -> Result<(), Fail> {
    let exp = model(c);
    let frames = build_frames(c);
    let mut tracker = ttl_cache::TtlCache::new(64);
    let cfg = huginn_net::AnalysisConfig { http_enabled: false, tcp_enabled: true, tls_enabled: false, matcher_enabled: false };
    let mut hn = if unified { Some(huginn_net::HuginnNet::new(None, 64, Some(cfg)).map_err(|e| fail!("unified:new", "{e}"))?) } else { None };
    for (i, f) in frames.iter().enumerate() {
        drive::set_clock(Some(c.segs[i].at));
        st.class(exp[i].2);
        match drive::tcp_packet(f, &mut tracker, false) {
            TcpOut::Ok(r) => cmp(i, &exp[i], r.client_uptime.as_ref(), r.server_uptime.as_ref(), "tcp")?,
            TcpOut::Err(_) => {
                if exp[i].0.is_some() {
                    return Err(fail!("tcp:error-instead-of-estimate", "segment {i}"));
                }
            }
            TcpOut::NotIp => return Err(fail!("tcp:frame-not-decoded", "segment {i}")),
        }
        if let Some(h) = hn.as_mut() {
            let r = h.analyze_tcp(f);
            cmp(i, &exp[i], r.tcp_client_uptime.as_ref(), r.tcp_server_uptime.as_ref(), "unified")?;
        }
    }
    drive::set_clock(None);
    Ok(())
}

fn steady_case(rate_milli_hz: u64, interval: u64, base: u32, client: bool, handshake: bool, v4: bool) -> UpCase {
    // ts advances at rate: ticks = round(rate * interval)
    let ticks = ((rate_milli_hz as u128 * interval as u128 + 500_000) / 1_000_000) as u32;
    let (a_port, b_port) = (50000u16, 443u16);
    let from_a = client;
    let f1 = if handshake { if client { fr::SYN } else { fr::SYN | fr::ACK } } else { fr::ACK };
    UpCase {
        v4,
        a_port,
        b_port,
        segs: vec![Seg { from_a, flags: f1, tsval: base, at: 1_000_000 }, Seg { from_a, flags: fr::ACK, tsval: base.wrapping_add(ticks), at: 1_000_000 + interval }],
    }
}

pub fn run(ctx: &Ctx) {
    ctx.assume("arrival times are injected through the verif-hooks clock (hook H1); the TTL of tracker entries (30 s real time) is not reached during a case");
    ctx.assume("grid: within 10 % of 1000 Hz -> 1000; within 10 % of a multiple of 100 Hz -> that multiple; else p0f range rounding; rates within 0.5 % of a grid decision boundary are only range-checked");
    ctx.assume("backward timestamp movement is read the p0f way (magnitude of the inverted difference)");
    let intervals: Vec<u64> = vec![25, 26, 40, 99, 100, 101, 250, 1000, 5000, 60_000, 599_999, 600_000];
    let ni = intervals.len() as u64;
    ctx.run_indexed("integer-rates-exhaustive", "every integer rate 1..=1500 Hz x 12 intervals (25 ms .. 600 s) x {client, server} x {handshake flags, port heuristic} x {v4, v6}: two segments of one endpoint; oracle: reference model of the statement; non-trivial: the estimator computes (interval inside the window and >= 5 ticks)", true, 1500 * ni * 8, |i, st| {
        let rate = 1 + (i % 1500);
        let mut k = i / 1500;
        let interval = intervals[(k % ni) as usize];
        k /= ni;
        let c = steady_case(rate * 1000, interval, 1_000_000u32.wrapping_add((rate * 7919) as u32), k & 1 == 0, k & 2 == 0, k & 4 == 0);
        st.evals += 1;
        let exp = model(&c);
        if exp[1].0.is_some() {
            st.nontrivial(&c);
        }
        st.sample(|| json!({"rate_hz": rate, "interval_ms": interval, "segments": format!("{:?}", c.segs), "expected": format!("{:?}", exp[1].0)}));
        if let Err(f) = check(&c, st, rate % 50 == 0) {
            st.fail(f, serde_json::to_value(&c).unwrap());
        }
    });
    // boundaries of interval and rate: +-2 ms, fractional rates
    let edges: Vec<u64> = vec![23, 24, 25, 26, 27, 98, 99, 100, 101, 102, 599_998, 599_999, 600_000, 600_001, 600_002];
    let rates_milli: Vec<u64> = vec![100, 500, 900, 999, 1000, 1001, 1100, 5000, 10_500, 99_000, 100_000, 110_000, 111_000, 249_000, 250_000, 899_000, 900_000, 1_000_000, 1_100_000, 1_101_000, 1_449_000, 1_499_000, 1_500_000, 1_501_000, 1_600_000, 3_000_000, 100_000_000];
    let (ne, nr) = (edges.len() as u64, rates_milli.len() as u64);
    ctx.run_indexed("boundaries", "interval boundaries 25 ms / 100 ms / 600 s (+-2 ms) x rates around 1 Hz, the 100/1000 Hz families and 1500 Hz incl. outside the range (0.1 Hz .. 100 kHz) x forward / backward / wrapping TSval x roles; non-trivial: the estimator computes", true, ne * nr * 3 * 4, |i, st| {
        let mut k = i;
        let interval = edges[(k % ne) as usize]; k /= ne;
        let rate = rates_milli[(k % nr) as usize]; k /= nr;
        let movement = k % 3; k /= 3;
        let base: u32 = match movement {
            2 => u32::MAX - 3, // wraps
            _ => 123_456_789,
        };
        let mut c = steady_case(rate, interval, base, k & 1 == 0, k & 2 == 0, true);
        if movement == 1 {
            // backward: swap the two TSvals
            let (a, b) = (c.segs[0].tsval, c.segs[1].tsval);
            c.segs[0].tsval = b;
            c.segs[1].tsval = a;
        }
        st.evals += 1;
        let exp = model(&c);
        if exp[1].0.is_some() {
            st.nontrivial(&c);
        }
        st.sample(|| json!({"rate_mHz": rate, "interval_ms": interval, "movement": movement, "expected": format!("{:?}", exp[1])}));
        if let Err(f) = check(&c, st, true) {
            st.fail(f, serde_json::to_value(&c).unwrap());
        }
    });
    // random histories: 2..6 segments, both directions interleaved
    let n = ctx.tier.pick(1_000_000, 20_000_000);
    ctx.run_prop(
        "random-histories",
        "proptest histories of 2..6 timestamped segments of one connection, both directions interleaved: rates log-uniform 0.1 Hz..100 kHz, intervals log-uniform 1 ms..20 min clustered on the boundaries, TSval base anywhere incl. wrap, forward and backward movement, handshake vs port-heuristic roles (ports around 1024), any accepted flag byte; oracle: reference state machine (first segment stored, estimate against the first, failure marks the endpoint bad); non-trivial: >= 1 segment where the estimator computes",
        n,
        || {
            let seg = (any::<bool>(), prop_oneof![3 => Just(fr::ACK), 1 => Just(fr::SYN), 1 => Just(fr::SYN | fr::ACK), 1 => Just(fr::ACK | fr::PSH), 1 => Just(fr::FIN | fr::ACK), 1 => Just(fr::RST)], 0u32..2_000_000, prop_oneof![Just(25u64), Just(24), Just(100), Just(99), Just(600_000), Just(600_001), 1u64..2000, 1u64..1_300_000], any::<bool>());
            (
                any::<bool>(),
                prop_oneof![Just(1024u16), Just(1025u16), Just(50000u16), Just(80u16)],
                prop_oneof![Just(1024u16), Just(1025u16), Just(443u16), Just(8080u16)],
                prop_oneof![Just(0u32), Just(u32::MAX - 1000), any::<u32>()],
                prop_oneof![Just(0u32), Just(u32::MAX - 50), any::<u32>()],
                // per-direction tick rates in milli-Hz, log-uniform
                (0u32..20).prop_map(|e| 100u64 << e),
                (0u32..20).prop_map(|e| 100u64 << e),
                proptest::collection::vec(seg, 2..7),
            )
                .prop_map(|(v4, a_port, b_port, base_a, base_b, ra, rb, segs)| {
                    let mut t = 1_000_000u64;
                    let mut out = vec![];
                    for (from_a, flags, jitter, gap, backward) in segs {
                        t += gap;
                        let (base, rate) = if from_a { (base_a, ra) } else { (base_b, rb) };
                        let elapsed = t - 1_000_000;
                        let ticks = ((rate as u128 * elapsed as u128) / 1_000_000) as u32;
                        let ts = if backward { base.wrapping_sub(ticks).wrapping_sub(jitter % 7) } else { base.wrapping_add(ticks) };
                        out.push(Seg { from_a, flags, tsval: ts, at: t });
                    }
                    UpCase { v4, a_port, b_port, segs: out }
                })
        },
        |c: &UpCase, st: &mut Stats| {
            let exp = model(c);
            if exp.iter().any(|e| e.0.is_some()) {
                st.nontrivial(c);
            }
            st.sample(|| json!({"case": format!("{:?}", c), "expected": format!("{:?}", exp)}));
            check(c, st, true)
        },
    );
}

// ---------------------------------------------------------------------------------------------
// many endpoints through parallel mode as a user sets it up (with_config + init_pool + worker_pool().dispatch)
// ---------------------------------------------------------------------------------------------
#[derive(Clone, Debug, Serialize, Deserialize, Hash)]
pub struct ManyCase {
    /// per endpoint: (tick rate in milli-Hz, interval ms between its segments, 0 = two steady segments / 1 = a wild segment in between (marks the endpoint bad) / 2 = port heuristic instead of SYN)
    pub ends: Vec<(u32, u16, u8)>,
    pub workers: u8,
    pub queue: u8,
    pub batch: u8,
}

fn many_endpoint(i: usize, e: &(u32, u16, u8)) -> (UpCase, [u8; 4]) {
    let (rate, interval, mode) = (e.0.max(1) as u64, e.1.max(30) as u64, e.2 % 3);
    let base = ((i as u32) + 1) << 22;
    let t0 = 1_000_000 + i as u64;
    let ticks = |ms: u64| ((rate as u128 * ms as u128 + 500_000) / 1_000_000) as u32;
    let first = if mode == 2 { fr::ACK } else { fr::SYN };
    let mut segs = vec![Seg { from_a: true, flags: first, tsval: base, at: t0 }];
    if mode == 1 {
        // 80 kHz for 30 ms: outside the range, the endpoint is marked bad and must stay silent afterwards
        segs.push(Seg { from_a: true, flags: fr::ACK, tsval: base.wrapping_add(2400), at: t0 + 30 });
    }
    segs.push(Seg { from_a: true, flags: fr::ACK, tsval: base.wrapping_add(ticks(interval)).wrapping_add(if mode == 1 { 1 } else { 0 }), at: t0 + interval });
    (UpCase { v4: true, a_port: 40000 + i as u16, b_port: 443, segs }, [10, 1 + (i / 200) as u8, (i % 200) as u8, 9])
}

pub fn check_many(c: &ManyCase, st: &mut Stats) -> Result<(), Fail> {
    use std::sync::atomic::{AtomicU64, Ordering};
    use std::sync::Arc;
    let ends: Vec<(UpCase, [u8; 4])> = c.ends.iter().enumerate().map(|(i, e)| many_endpoint(i, e)).collect();
    // round by round: every endpoint's first segment, then every second one, ... (what stresses a tracker that is too small)
    let mut frames: Vec<Vec<u8>> = vec![];
    let mut clock: HashMap<u32, u64> = HashMap::new();
    let per: Vec<Vec<Vec<u8>>> = ends.iter().map(|(u, a)| build_frames_at(u, *a)).collect();
    for round in 0..3 {
        for (i, (u, _)) in ends.iter().enumerate() {
            if let Some(sg) = u.segs.get(round) {
                frames.push(per[i][round].clone());
                clock.insert(sg.tsval, sg.at);
            }
        }
    }
    let workers = 1 + (c.workers % 4) as usize;
    let queue = 2 + (c.queue % 5) as usize;
    let batch = 1 + (c.batch % 16) as usize;
    let expected: Vec<Vec<(Option<ExpUptime>, bool, &'static str)>> = ends.iter().map(|(u, _)| model(u)).collect();
    if ends.len() > queue * 2 && expected.iter().any(|e| e.iter().any(|x| x.0.is_some())) {
        st.nontrivial(c);
    }
    let _guard = crate::pool::POOL_LOCK.lock().unwrap_or_else(|e| e.into_inner());
    huginn_net_tcp::verif_hooks::set_global_clock_table(Some(clock));
    let started = Arc::new(AtomicU64::new(0));
    let s2 = started.clone();
    huginn_net_tcp::verif_hooks::set_sched_hook(Some(Arc::new(move |site: &'static str, _p: &[u8]| {
        if site == "worker_packet" {
            s2.fetch_add(1, Ordering::SeqCst);
        }
    })));
    let run = || -> Result<Option<Vec<huginn_net_tcp::TcpAnalysisResult>>, Fail> {
        let (tx, rx) = std::sync::mpsc::channel();
        // capacity 1000 endpoints per worker, a queue of 2..6 packets: the two numbers a set-up must not confuse
        let mut a = huginn_net_tcp::HuginnNetTcp::with_config(None, 1000, workers, queue, batch, 5).map_err(|e| fail!("parallel-mode:setup", "{e}"))?;
        a.init_pool(tx.clone()).map_err(|e| fail!("parallel-mode:setup", "{e}"))?;
        let pool = a.worker_pool().ok_or_else(|| fail!("parallel-mode:setup", "no worker pool after init_pool"))?;
        for (n, f) in frames.iter().enumerate() {
            if pool.dispatch(f.clone()) != huginn_net_tcp::DispatchResult::Queued {
                return Err(fail!("parallel-mode:dropped-although-queue-empty", "frame {n}: every earlier frame had been taken from its queue"));
            }
            // paced: wait until a worker has taken the frame, so that the small queue never overflows
            let end = std::time::Instant::now() + std::time::Duration::from_secs(10);
            while started.load(Ordering::SeqCst) < n as u64 + 1 {
                if std::time::Instant::now() > end {
                    return Ok(None);
                }
                std::thread::yield_now();
            }
        }
        pool.shutdown();
        drop(pool);
        drop(a);
        drop(tx);
        let end = std::time::Instant::now() + std::time::Duration::from_secs(20);
        let mut out = vec![];
        loop {
            match rx.recv_timeout(std::time::Duration::from_millis(200)) {
                Ok(v) => out.push(v),
                Err(std::sync::mpsc::RecvTimeoutError::Disconnected) => return Ok(Some(out)),
                Err(std::sync::mpsc::RecvTimeoutError::Timeout) => {
                    crate::engine::watchdog_touch();
                    if std::time::Instant::now() > end {
                        return Ok(None);
                    }
                }
            }
        }
    };
    let got = run();
    huginn_net_tcp::verif_hooks::set_sched_hook(None);
    huginn_net_tcp::verif_hooks::set_global_clock_table(None);
    drop(_guard);
    let got = match got? {
        Some(g) => g,
        None => {
            st.class("pool-did-not-finish(inconclusive)");
            st.discards += 1;
            return Ok(());
        }
    };
    // estimates per endpoint, in delivery order (one endpoint = one source address = one worker: order is kept)
    let mut by_port: HashMap<u16, Vec<huginn_net_tcp::output::UptimeOutput>> = HashMap::new();
    for r in got {
        for u in [r.client_uptime, r.server_uptime].into_iter().flatten() {
            by_port.entry(u.source.port).or_default().push(u);
        }
    }
    for (i, (u, _)) in ends.iter().enumerate() {
        let exp: Vec<&(Option<ExpUptime>, bool, &'static str)> = expected[i].iter().filter(|e| e.0.is_some()).collect();
        let got = by_port.remove(&u.a_port).unwrap_or_default();
        if got.len() < exp.len() {
            return Err(fail!("parallel-mode:estimate-missing", "endpoint {i} of {} (workers {workers}, queue {queue}, capacity 1000): expected {:?}, got {} estimates", ends.len(), exp.iter().map(|e| e.0.clone()).collect::<Vec<_>>(), got.len()));
        }
        if got.len() > exp.len() {
            return Err(fail!("parallel-mode:reported-although-withheld-expected", "endpoint {i} of {} (workers {workers}, queue {queue}, capacity 1000): model {:?}, got {:?}", ends.len(), expected[i].iter().map(|e| e.2).collect::<Vec<_>>(), got));
        }
        for (e, g) in exp.iter().zip(got.iter()) {
            let (gc, gs) = if matches!(g.role, huginn_net_tcp::output::UptimeRole::Client) { (Some(g), None) } else { (None, Some(g)) };
            cmp(i, e, gc, gs, "parallel-mode")?;
        }
    }
    Ok(())
}

pub fn run_many(ctx: &Ctx) {
    ctx.shrink_iters.store(30, std::sync::atomic::Ordering::Relaxed);
    let n = ctx.tier.pick(400, 8_000);
    ctx.run_prop(
        "many-endpoints-parallel-mode",
        "8..120 timestamped endpoints (steady clocks 50..1500 Hz, intervals 100..600 ms; a third with a wild 80 kHz segment in between, which marks the endpoint bad; a third recognised by the port heuristic) sent round by round (all first segments, then all second ones ...) through the TCP analyzer's parallel mode as a user sets it up: with_config(capacity 1000, workers 1..4, queue 2..6, batch 1..16) + init_pool + worker_pool().dispatch, paced so that the small queue never overflows; oracle: the reference model per endpoint (estimate on the steady pair, nothing for a marked endpoint); non-trivial: more endpoints than twice the queue size and >= 1 estimate expected",
        n,
        || (proptest::collection::vec((prop_oneof![Just(100_000u32), Just(250_000u32), Just(1_000_000u32), Just(300_000u32), 50_000u32..1_500_000], 100u16..600, 0u8..3), 8..120), any::<u8>(), any::<u8>(), any::<u8>()).prop_map(|(ends, workers, queue, batch)| ManyCase { ends, workers, queue, batch }),
        |c: &ManyCase, st: &mut Stats| {
            st.sample(|| json!({"endpoints": c.ends.len(), "workers": 1 + c.workers % 4, "queue": 2 + c.queue % 5}));
            check_many(c, st)
        },
    );
    ctx.shrink_iters.store(1200, std::sync::atomic::Ordering::Relaxed);
}

pub fn replay(_ctx: &Ctx, sub: &str, input: &serde_json::Value) -> Result<(), Fail> {
    if sub == "many-endpoints-parallel-mode" {
        let c: ManyCase = serde_json::from_value(input["value"].clone()).map_err(|e| fail!("bad-replay", "{e}"))?;
        let mut st = Stats::new();
        return check_many(&c, &mut st);
    }
    let v = if input.get("value").is_some() { input["value"].clone() } else { input.clone() };
    let c: UpCase = serde_json::from_value(v).map_err(|e| fail!("bad-replay", "{e}"))?;
    let mut st = Stats::new();
    check(&c, &mut st, true)
}
