//! C14 — packet filters decide exactly the documented boolean function (TCP, HTTP, TLS crates + unified re-export).
use crate::engine::{idx, Ctx, Fail, Stats};
use proptest::collection::vec;
use proptest::prelude::*;
use serde::{Deserialize, Serialize};
use serde_json::json;
use std::net::{IpAddr, Ipv4Addr, Ipv6Addr};

#[derive(Clone, Debug, Hash, Serialize, Deserialize)]
pub enum PortCall {
    Src(u16),
    Dst(u16),
    /// builder call `source_range(a..b)`
    SrcRange(u16, u16),
    DstRange(u16, u16),
    SrcList(Vec<u16>),
    DstList(Vec<u16>),
}
#[derive(Clone, Debug, Hash, Serialize, Deserialize)]
pub struct PortSpec {
    pub calls: Vec<PortCall>,
    pub any: bool,
}
#[derive(Clone, Copy, Debug, Hash, Serialize, Deserialize, PartialEq)]
pub enum Side {
    Both,
    Src,
    Dst,
    None,
}
#[derive(Clone, Debug, Hash, Serialize, Deserialize)]
pub struct IpSpec {
    pub addrs: Vec<IpAddr>,
    pub side: Side,
}
#[derive(Clone, Debug, Hash, Serialize, Deserialize)]
pub struct SubnetSpec {
    pub nets: Vec<(IpAddr, u8)>,
    pub side: Side,
}
#[derive(Clone, Debug, Hash, Serialize, Deserialize)]
pub struct FilterSpec {
    pub deny: bool,
    pub port: Option<PortSpec>,
    pub ip: Option<IpSpec>,
    pub subnet: Option<SubnetSpec>,
}

macro_rules! build_cfg {
    ($krate:ident, $spec:expr) => {{
        let spec: &FilterSpec = $spec;
        let mut cfg = $krate::FilterConfig::new().mode(if spec.deny { $krate::FilterMode::Deny } else { $krate::FilterMode::Allow });
        if let Some(p) = &spec.port {
            let mut f = $krate::PortFilter::new();
            for c in &p.calls {
                f = match c {
                    PortCall::Src(x) => f.source(*x),
                    PortCall::Dst(x) => f.destination(*x),
                    PortCall::SrcRange(a, b) => f.source_range(*a..*b),
                    PortCall::DstRange(a, b) => f.destination_range(*a..*b),
                    PortCall::SrcList(l) => f.source_list(l.clone()),
                    PortCall::DstList(l) => f.destination_list(l.clone()),
                };
            }
            if p.any {
                f = f.any_port();
            }
            cfg = cfg.with_port_filter(f);
        }
        if let Some(i) = &spec.ip {
            let mut f = $krate::IpFilter::new();
            // both builder entry points: one `allow` per address, or the whole list through `allow_list`
            if i.addrs.len() % 2 == 1 {
                let texts: Vec<String> = i.addrs.iter().map(|a| a.to_string()).collect();
                f = f.allow_list(texts.iter().map(|t| t.as_str()).collect()).expect("valid addresses");
            } else {
                for a in &i.addrs {
                    f = f.allow(&a.to_string()).expect("valid address");
                }
            }
            // the side selectors are absolute (`only check source addresses`): the last call decides, whatever came before it and
            // whether the filter was started with new() or with Default::default()
            let how = (i.addrs.len() + i.addrs.first().map(|a| match a { std::net::IpAddr::V4(v) => v.octets()[3] as usize, std::net::IpAddr::V6(v) => v.octets()[15] as usize }).unwrap_or(0)) % 3;
            if how == 2 {
                let listed = f;
                f = $krate::IpFilter::default();
                f.ipv4_addresses = listed.ipv4_addresses;
                f.ipv6_addresses = listed.ipv6_addresses;
            }
            match i.side {
                Side::Both => {
                    f.check_source = true;
                    f.check_destination = true;
                }
                Side::Src => f = if how == 1 { f.destination_only().source_only() } else { f.source_only() },
                Side::Dst => f = if how == 1 { f.source_only().destination_only() } else { f.destination_only() },
                Side::None => {
                    f.check_source = false;
                    f.check_destination = false;
                }
            }
            cfg = cfg.with_ip_filter(f);
        }
        if let Some(s) = &spec.subnet {
            let mut f = $krate::SubnetFilter::new();
            if s.nets.len() % 2 == 1 {
                let texts: Vec<String> = s.nets.iter().map(|(a, p)| format!("{}/{}", a, p)).collect();
                f = f.allow_list(texts.iter().map(|t| t.as_str()).collect()).expect("valid cidrs");
            } else {
                for (a, p) in &s.nets {
                    f = f.allow(&format!("{}/{}", a, p)).expect("valid cidr");
                }
            }
            let how = (s.nets.len() + s.nets.first().map(|(_, p)| *p as usize).unwrap_or(0)) % 2;
            match s.side {
                Side::Both => {}
                Side::Src => f = if how == 1 { f.destination_only().source_only() } else { f.source_only() },
                Side::Dst => f = if how == 1 { f.source_only().destination_only() } else { f.destination_only() },
                Side::None => {
                    f.check_source = false;
                    f.check_destination = false;
                }
            }
            cfg = cfg.with_subnet_filter(f);
        }
        cfg
    }};
}

pub fn tcp_cfg(spec: &FilterSpec) -> huginn_net_tcp::FilterConfig {
    build_cfg!(huginn_net_tcp, spec)
}
pub fn http_cfg(spec: &FilterSpec) -> huginn_net_http::FilterConfig {
    build_cfg!(huginn_net_http, spec)
}
pub fn tls_cfg(spec: &FilterSpec) -> huginn_net_tls::FilterConfig {
    build_cfg!(huginn_net_tls, spec)
}

// ------------------------------------------------------------------------------------------------
// reference
// ------------------------------------------------------------------------------------------------
fn in_range(p: u16, a: u16, b: u16) -> bool {
    a <= p && p < b
}

pub fn port_matches(p: &PortSpec, sp: u16, dp: u16) -> bool {
    let mut src_ports = vec![];
    let mut dst_ports = vec![];
    let mut src_ranges = vec![];
    let mut dst_ranges = vec![];
    for c in &p.calls {
        match c {
            PortCall::Src(x) => src_ports.push(*x),
            PortCall::Dst(x) => dst_ports.push(*x),
            PortCall::SrcRange(a, b) => src_ranges.push((*a, *b)),
            PortCall::DstRange(a, b) => dst_ranges.push((*a, *b)),
            PortCall::SrcList(l) => src_ports.extend(l.iter().copied()),
            PortCall::DstList(l) => dst_ports.extend(l.iter().copied()),
        }
    }
    if p.any {
        let hit = |x: u16| src_ports.contains(&x) || dst_ports.contains(&x) || src_ranges.iter().chain(dst_ranges.iter()).any(|(a, b)| in_range(x, *a, *b));
        hit(sp) || hit(dp)
    } else {
        let src_constrained = !src_ports.is_empty() || !src_ranges.is_empty();
        let dst_constrained = !dst_ports.is_empty() || !dst_ranges.is_empty();
        let s_ok = !src_constrained || src_ports.contains(&sp) || src_ranges.iter().any(|(a, b)| in_range(sp, *a, *b));
        let d_ok = !dst_constrained || dst_ports.contains(&dp) || dst_ranges.iter().any(|(a, b)| in_range(dp, *a, *b));
        s_ok && d_ok
    }
}

fn in_net(ip: &IpAddr, net: &IpAddr, prefix: u8) -> bool {
    match (ip, net) {
        (IpAddr::V4(a), IpAddr::V4(n)) => {
            let (a, n) = (u32::from(*a), u32::from(*n));
            let mask = if prefix == 0 { 0 } else { u32::MAX << (32 - prefix as u32) };
            a & mask == n & mask
        }
        (IpAddr::V6(a), IpAddr::V6(n)) => {
            let (a, n) = (u128::from(*a), u128::from(*n));
            let mask = if prefix == 0 { 0 } else { u128::MAX << (128 - prefix as u32) };
            a & mask == n & mask
        }
        _ => false,
    }
}

pub fn reference(spec: &FilterSpec, sip: &IpAddr, dip: &IpAddr, sp: u16, dp: u16) -> bool {
    if spec.port.is_none() && spec.ip.is_none() && spec.subnet.is_none() {
        return true;
    }
    let mut all = true;
    if let Some(p) = &spec.port {
        all &= port_matches(p, sp, dp);
    }
    if let Some(i) = &spec.ip {
        let s = matches!(i.side, Side::Both | Side::Src) && i.addrs.contains(sip);
        let d = matches!(i.side, Side::Both | Side::Dst) && i.addrs.contains(dip);
        all &= s || d;
    }
    if let Some(n) = &spec.subnet {
        let s = matches!(n.side, Side::Both | Side::Src) && n.nets.iter().any(|(a, p)| in_net(sip, a, *p));
        let d = matches!(n.side, Side::Both | Side::Dst) && n.nets.iter().any(|(a, p)| in_net(dip, a, *p));
        all &= s || d;
    }
    if spec.deny {
        !all
    } else {
        all
    }
}

pub const K_EMPTY0: &str = "K-C14-empty-range-0";

/// known finding: the empty builder range `0..0` is stored as the inclusive pair (0,0) and matches port 0.
/// Returns the reference value under that reading.
pub fn reference_with_empty0(spec: &FilterSpec, sip: &IpAddr, dip: &IpAddr, sp: u16, dp: u16) -> Option<bool> {
    let p = spec.port.as_ref()?;
    let has = p.calls.iter().any(|c| matches!(c, PortCall::SrcRange(0, 0) | PortCall::DstRange(0, 0)));
    if !has || (sp != 0 && dp != 0) {
        return None;
    }
    let mut s2 = spec.clone();
    for c in s2.port.as_mut().unwrap().calls.iter_mut() {
        match c {
            PortCall::SrcRange(0, 0) => *c = PortCall::SrcRange(0, 1),
            PortCall::DstRange(0, 0) => *c = PortCall::DstRange(0, 1),
            _ => {}
        }
    }
    Some(reference(&s2, sip, dip, sp, dp))
}

pub fn check(ctx: &Ctx, spec: &FilterSpec, sip: &IpAddr, dip: &IpAddr, sp: u16, dp: u16, st: &mut Stats) -> Result<(), Fail> {
    let exp = reference(spec, sip, dip, sp, dp);
    let t = tcp_cfg(spec).should_process(sip, dip, sp, dp);
    let h = http_cfg(spec).should_process(sip, dip, sp, dp);
    let l = tls_cfg(spec).should_process(sip, dip, sp, dp);
    // unified analyzer re-exports the TCP crate's type
    let u: huginn_net::FilterConfig = tcp_cfg(spec);
    let uu = u.should_process(sip, dip, sp, dp);
    if t != h || t != l || t != uu {
        return Err(fail!("crates-disagree", "tcp {t} http {h} tls {l} unified {uu} for {sip}:{sp} -> {dip}:{dp}"));
    }
    if t != exp {
        if let Some(alt) = reference_with_empty0(spec, sip, dip, sp, dp) {
            if alt == t && ctx.is_known(K_EMPTY0) {
                st.known(K_EMPTY0);
                return Ok(());
            }
        }
        return Err(fail!(if exp { "rejects-what-the-rule-admits" } else { "admits-what-the-rule-rejects" }, "expected {exp} got {t} for {sip}:{sp} -> {dip}:{dp}"));
    }
    Ok(())
}

// ------------------------------------------------------------------------------------------------
// generators
// ------------------------------------------------------------------------------------------------
pub fn port_edge() -> impl Strategy<Value = u16> {
    prop_oneof![2 => Just(0u16), 1 => Just(1u16), 2 => Just(65535u16), 1 => Just(65534u16), 2 => Just(80u16), 2 => Just(443u16), 2 => Just(1024u16), 6 => any::<u16>()]
}

pub fn port_call() -> impl Strategy<Value = PortCall> {
    let range = || (port_edge(), port_edge(), 0u8..8).prop_map(|(a, b, k)| match k {
        0 => (a, a),                              // empty
        1 => (a, a.saturating_add(1)),            // single
        2 => (b.max(a), b.min(a)),                // reversed (empty)
        _ => (a.min(b), a.max(b)),
    });
    prop_oneof![
        2 => port_edge().prop_map(PortCall::Src),
        3 => port_edge().prop_map(PortCall::Dst),
        2 => range().prop_map(|(a, b)| PortCall::SrcRange(a, b)),
        3 => range().prop_map(|(a, b)| PortCall::DstRange(a, b)),
        1 => vec(port_edge(), 0..4).prop_map(PortCall::SrcList),
        1 => vec(port_edge(), 0..4).prop_map(PortCall::DstList),
    ]
}

pub fn addr_pool() -> impl Strategy<Value = IpAddr> {
    prop_oneof![
        3 => (0u8..4, 0u8..4).prop_map(|(a, b)| IpAddr::V4(Ipv4Addr::new(10, 0, a, b))),
        1 => any::<u32>().prop_map(|x| IpAddr::V4(Ipv4Addr::from(x))),
        2 => (0u16..4).prop_map(|a| IpAddr::V6(Ipv6Addr::new(0x2001, 0xdb8, 0, 0, 0, 0, 0, a))),
        1 => any::<u128>().prop_map(|x| IpAddr::V6(Ipv6Addr::from(x))),
        // IPv6 addresses that embed an IPv4 address of the pool (IPv4-compatible `::a.b.c.d`, IPv4-mapped `::ffff:a.b.c.d`), `::1`, `::`:
        // they are IPv6 addresses and match IPv6 entries only
        2 => (0u8..4, 0u8..4, 0u8..4).prop_map(|(k, a, b)| IpAddr::V6(match k {
            0 => Ipv6Addr::new(0, 0, 0, 0, 0, 0, 0x0a00, ((a as u16) << 8) | b as u16),
            1 => Ipv6Addr::new(0, 0, 0, 0, 0, 0xffff, 0x0a00, ((a as u16) << 8) | b as u16),
            2 => Ipv6Addr::new(0, 0, 0, 0, 0, 0, 0, 1),
            _ => Ipv6Addr::new(0, 0, 0, 0, 0, 0, 0, 0),
        })),
    ]
}

pub fn side() -> impl Strategy<Value = Side> {
    prop_oneof![4 => Just(Side::Both), 2 => Just(Side::Src), 2 => Just(Side::Dst), 1 => Just(Side::None)]
}

pub fn filter_spec() -> impl Strategy<Value = FilterSpec> {
    (
        any::<bool>(),
        proptest::option::weighted(0.7, (vec(port_call(), 0..5), proptest::bool::weighted(0.25)).prop_map(|(calls, any)| PortSpec { calls, any })),
        proptest::option::weighted(0.5, (vec(addr_pool(), 0..4), side()).prop_map(|(addrs, side)| IpSpec { addrs, side })),
        proptest::option::weighted(
            0.5,
            (vec((addr_pool(), any::<u8>()).prop_map(|(a, p)| { let max = if a.is_ipv4() { 33u16 } else { 129 }; (a, (p as u16 % max) as u8) }), 0..3), side()).prop_map(|(nets, side)| SubnetSpec { nets, side }),
        ),
    )
        .prop_map(|(deny, port, ip, subnet)| FilterSpec { deny, port, ip, subnet })
}

#[derive(Clone, Debug, Hash, Serialize, Deserialize)]
pub struct Probe {
    pub spec: FilterSpec,
    /// selectors resolved relative to the configuration
    pub sel: (u16, u16, u16, u16, u8),
    pub rnd: (u128, u128, u16, u16),
}

/// candidate ports relative to the configuration: listed, range ends +-1, boundaries, random
pub fn port_candidates(spec: &FilterSpec, rnd: u16) -> Vec<u16> {
    let mut v = vec![0, 1, 65535, 65534, rnd];
    if let Some(p) = &spec.port {
        for c in &p.calls {
            match c {
                PortCall::Src(x) | PortCall::Dst(x) => v.extend([*x, x.wrapping_add(1), x.wrapping_sub(1)]),
                PortCall::SrcRange(a, b) | PortCall::DstRange(a, b) => v.extend([*a, a.wrapping_sub(1), a.wrapping_add(1), *b, b.wrapping_sub(1), b.wrapping_add(1)]),
                PortCall::SrcList(l) | PortCall::DstList(l) => v.extend(l.iter().copied()),
            }
        }
    }
    v
}

pub fn addr_candidates(spec: &FilterSpec, v6: bool, rnd: u128) -> Vec<IpAddr> {
    let mut v: Vec<IpAddr> = vec![];
    let rand_addr = if v6 { IpAddr::V6(Ipv6Addr::from(rnd)) } else { IpAddr::V4(Ipv4Addr::from(rnd as u32)) };
    v.push(rand_addr);
    v.push(if v6 { IpAddr::V6(Ipv6Addr::new(0x2001, 0xdb8, 0, 0, 0, 0, 0, 1)) } else { IpAddr::V4(Ipv4Addr::new(10, 0, 1, 1)) });
    if let Some(i) = &spec.ip {
        v.extend(i.addrs.iter().filter(|a| a.is_ipv6() == v6).copied());
        // the other family's listed addresses in embedded form (must NOT match: different address family)
        for a in &i.addrs {
            match (a, v6) {
                (IpAddr::V4(x), true) => {
                    v.push(IpAddr::V6(x.to_ipv6_mapped()));
                    v.push(IpAddr::V6(x.to_ipv6_compatible()));
                }
                (IpAddr::V6(x), false) => {
                    let o = x.octets();
                    v.push(IpAddr::V4(Ipv4Addr::new(o[12], o[13], o[14], o[15])));
                }
                _ => {}
            }
        }
    }
    if let Some(s) = &spec.subnet {
        for (a, p) in &s.nets {
            if a.is_ipv6() != v6 {
                continue;
            }
            match a {
                IpAddr::V4(x) => {
                    let n = u32::from(*x);
                    let p = *p as u32;
                    let host = if p >= 32 { 0 } else { (rnd as u32) & (u32::MAX >> p) };
                    let netpart = if p == 0 { 0 } else { n & (u32::MAX << (32 - p)) };
                    v.push(IpAddr::V4(Ipv4Addr::from(netpart | host))); // inside
                    if p > 0 {
                        v.push(IpAddr::V4(Ipv4Addr::from((netpart | host) ^ (1u32 << (32 - p))))); // just outside: last prefix bit flipped
                    }
                }
                IpAddr::V6(x) => {
                    let n = u128::from(*x);
                    let p = *p as u32;
                    let host = if p >= 128 { 0 } else { rnd & (u128::MAX >> p) };
                    let netpart = if p == 0 { 0 } else { n & (u128::MAX << (128 - p)) };
                    v.push(IpAddr::V6(Ipv6Addr::from(netpart | host)));
                    if p > 0 {
                        v.push(IpAddr::V6(Ipv6Addr::from((netpart | host) ^ (1u128 << (128 - p)))));
                    }
                }
            }
        }
    }
    v
}

pub fn resolve(p: &Probe) -> (IpAddr, IpAddr, u16, u16) {
    let v6 = p.sel.4 % 3 == 0;
    let a = addr_candidates(&p.spec, v6, p.rnd.0);
    let b = addr_candidates(&p.spec, v6, p.rnd.1);
    let ps = port_candidates(&p.spec, p.rnd.2);
    let pd = port_candidates(&p.spec, p.rnd.3);
    (a[idx(p.sel.0, a.len())], b[idx(p.sel.1, b.len())], ps[idx(p.sel.2, ps.len())], pd[idx(p.sel.3, pd.len())])
}

pub fn nontrivial(spec: &FilterSpec) -> bool {
    let n = spec.port.is_some() as u8 + spec.ip.is_some() as u8 + spec.subnet.is_some() as u8;
    n >= 2
        || spec.port.as_ref().map(|p| p.calls.iter().any(|c| matches!(c, PortCall::SrcRange(..) | PortCall::DstRange(..)))).unwrap_or(false)
        || spec.subnet.as_ref().map(|s| s.nets.iter().any(|(_, p)| ![0u8, 32, 128].contains(p))).unwrap_or(false)
}

pub fn run(ctx: &Ctx) {
    ctx.assume("port filters are built through the public builder (source/destination/_range/_list/any_port); address and subnet side selection also through the public check_source/check_destination fields");
    let n = ctx.tier.pick(2_000_000, 40_000_000);
    ctx.run_prop(
        "config-x-endpoints",
        "proptest FilterConfig (mode x port/address/subnet sub-filters x side selection x lists/ranges incl. empty, reversed, boundary ranges, prefix 0..32/128) x endpoints drawn relative to the configuration (listed / range end +-1 / inside and just outside each CIDR block / random); oracle: independent boolean reference; TCP, HTTP, TLS and unified copies must also agree; non-trivial: >=2 sub-filters, a range, or a prefix not in {0,32,128}",
        n,
        || (filter_spec(), (any::<u16>(), any::<u16>(), any::<u16>(), any::<u16>(), any::<u8>()), (any::<u128>(), any::<u128>(), any::<u16>(), any::<u16>())).prop_map(|(spec, sel, rnd)| Probe { spec, sel, rnd }),
        |p: &Probe, st: &mut Stats| {
            let (sip, dip, sp, dp) = resolve(p);
            if nontrivial(&p.spec) {
                st.nontrivial(p);
            }
            let exp = reference(&p.spec, &sip, &dip, sp, dp);
            st.class(if exp { "expected:admit" } else { "expected:reject" });
            st.sample(|| json!({"spec": format!("{:?}", p.spec), "endpoints": format!("{sip}:{sp} -> {dip}:{dp}"), "expected": exp}));
            check(ctx, &p.spec, &sip, &dip, sp, dp, st)
        },
    );
    // the same decision on real frames: the packet path of every analyzer reads the endpoints the decoder reads
    let n = ctx.tier.pick(400_000, 8_000_000);
    ctx.run_prop(
        "config-x-frames",
        "the same configurations x endpoints, carried by a real TCP segment: IPv4 with IHL 5..15 (0..40 bytes of IP options) or IPv6, Ethernet / raw IP / loopback framing, SYN or data segment, TCP options present or not; oracle: raw_filter::apply of the TCP (also used by the unified analyzer), HTTP and TLS crates == the boolean reference over the segment's endpoints; non-trivial: IP options present or non-Ethernet framing",
        n,
        || ((filter_spec(), (any::<u16>(), any::<u16>(), any::<u16>(), any::<u16>(), any::<u8>()), (any::<u128>(), any::<u128>(), any::<u16>(), any::<u16>())).prop_map(|(spec, sel, rnd)| Probe { spec, sel, rnd }), 0u8..11, 0u8..3, any::<bool>(), any::<bool>()),
        |(p, ipopt_words, link, syn, tcpopts): &(Probe, u8, u8, bool, bool), st: &mut Stats| {
            use crate::gen::frames::{self as fr, frame, Ip, Ip4, Ip6, Link, Tcp};
            let (sip, dip, sp, dp) = resolve(p);
            let exp = reference(&p.spec, &sip, &dip, sp, dp);
            if reference_with_empty0(&p.spec, &sip, &dip, sp, dp).is_some() {
                return Ok(()); // the documented special case of `0..0` ranges is decided by config-x-endpoints
            }
            let ip = match (sip, dip) {
                (IpAddr::V4(a), IpAddr::V4(b)) => Ip::V4(Ip4 { src: a.octets(), dst: b.octets(), ihl: 5 + ipopt_words, options: vec![1u8; 4 * *ipopt_words as usize], ..Ip4::default() }),
                (IpAddr::V6(a), IpAddr::V6(b)) => Ip::V6(Ip6 { src: a.octets(), dst: b.octets(), ..Ip6::default() }),
                _ => return Ok(()),
            };
            let link_sel = *link;
            let link = [Link::Ether, Link::Raw, Link::Null][link_sel as usize];
            let tcp = Tcp { sport: sp, dport: dp, seq: 7, flags: if *syn { fr::SYN } else { fr::ACK | fr::PSH }, options: if *tcpopts { fr::opt::mss(1460) } else { vec![] }, payload: if *syn { vec![] } else { b"GET / HTTP/1.1\r\n\r\n".to_vec() }, ..Tcp::default() };
            let f = frame(link, &ip, &tcp);
            if link == Link::Raw && crate::gen::frames::raw_is_ambiguous(&f) {
                return Ok(());
            }
            if *ipopt_words > 0 || link != Link::Ether {
                st.nontrivial(&(p, ipopt_words, link_sel));
            }
            st.class(if exp { "expected:admit" } else { "expected:reject" });
            let got = [("tcp", huginn_net_tcp::raw_filter::apply(&f, &tcp_cfg(&p.spec))), ("http", huginn_net_http::raw_filter::apply(&f, &http_cfg(&p.spec))), ("tls", huginn_net_tls::raw_filter::apply(&f, &tls_cfg(&p.spec)))];
            for (name, g) in got {
                if g != exp {
                    return Err(fail!(format!("frame:{name}-filter-decides-otherwise"), "{sip}:{sp} -> {dip}:{dp} ihl {} link {:?}: expected {exp} got {g} for {:?}", 5 + ipopt_words, link, p.spec));
                }
            }
            Ok(())
        },
    );
    // exhaustive ports for generated port filters
    let nf = ctx.tier.pick(300u64, 5000);
    ctx.run_indexed(
        "all-ports-per-filter",
        "generated port-only filters (derived from VERIF_SEED) x ALL 65536 values of one port (source or destination side) against a fixed other side; non-trivial: filter has a range",
        true,
        nf,
        |i, st| {
            let mut rng = ctx.rng("all-ports-per-filter", i);
            let mut calls = vec![];
            let edge = |r: &mut crate::engine::SplitMix| -> u16 { *r.pick(&[0u16, 1, 80, 443, 1024, 65534, 65535, (r.0 >> 7) as u16, (r.0 >> 23) as u16]) };
            for _ in 0..(1 + rng.below(4)) {
                let a = edge(&mut rng);
                let b = edge(&mut rng);
                calls.push(match rng.below(6) {
                    0 => PortCall::Src(a),
                    1 => PortCall::Dst(a),
                    2 => PortCall::SrcRange(a.min(b), a.max(b)),
                    3 => PortCall::DstRange(a.min(b), a.max(b)),
                    4 => PortCall::DstRange(a, a),
                    _ => PortCall::SrcRange(a, a.saturating_add(rng.below(300) as u16)),
                });
            }
            let spec = FilterSpec { deny: rng.chance(1, 3), port: Some(PortSpec { calls, any: rng.chance(1, 4) }), ip: None, subnet: None };
            let sip = IpAddr::V4(Ipv4Addr::new(10, 0, 0, 1));
            let dip = IpAddr::V4(Ipv4Addr::new(10, 0, 0, 2));
            let fixed = edge(&mut rng);
            let vary_src = rng.chance(1, 2);
            let t = tcp_cfg(&spec);
            if nontrivial(&spec) {
                st.nontrivial(&spec);
            }
            st.sample(|| json!({"spec": format!("{:?}", spec), "fixed_port": fixed, "varying": if vary_src { "source" } else { "destination" }}));
            for p in 0..=65535u16 {
                st.evals += 1;
                let (sp, dp) = if vary_src { (p, fixed) } else { (fixed, p) };
                let exp = reference(&spec, &sip, &dip, sp, dp);
                let got = t.should_process(&sip, &dip, sp, dp);
                if exp != got {
                    if let Some(alt) = reference_with_empty0(&spec, &sip, &dip, sp, dp) {
                        if alt == got && ctx.is_known(K_EMPTY0) {
                            st.known(K_EMPTY0);
                            continue;
                        }
                    }
                    st.fail(fail!("all-ports:mismatch", "spec {:?} {sp}->{dp}: expected {exp} got {got}", spec), json!({"value": Probe { spec: spec.clone(), sel: (0, 0, 0, 0, 1), rnd: (0, 0, sp, dp) }, "direct": [sp, dp]}));
                }
            }
        },
    );
}

pub fn replay(ctx: &Ctx, input: &serde_json::Value) -> Result<(), Fail> {
    let p: Probe = serde_json::from_value(input["value"].clone()).map_err(|e| fail!("bad-replay", "{e}"))?;
    let mut st = Stats::new();
    if let Some(d) = input.get("direct") {
        let sip = IpAddr::V4(Ipv4Addr::new(10, 0, 0, 1));
        let dip = IpAddr::V4(Ipv4Addr::new(10, 0, 0, 2));
        return check(ctx, &p.spec, &sip, &dip, d[0].as_u64().unwrap() as u16, d[1].as_u64().unwrap() as u16, &mut st);
    }
    let (sip, dip, sp, dp) = resolve(&p);
    check(ctx, &p.spec, &sip, &dip, sp, dp, &mut st)
}
