//! C12 — match distances obey signature semantics: exact, wildcard, decisive, monotone.
use crate::engine::{idx, Ctx, Fail, Stats};
use crate::gen::sig::{self, HdrS, HttpSigS, OptS, TcpSigS, TtlS, WinS};
use huginn_net_db::db_matching_trait::DatabaseSignature;
use huginn_net_db::observable_signals::{HttpRequestObservation, HttpResponseObservation, TcpObservation};
use huginn_net_db::tcp as dt;
use proptest::prelude::*;
use serde::{Deserialize, Serialize};
use serde_json::json;

pub const K_EXPSW: &str = "K-C12-expsw";

fn tdist(s: &dt::Signature, o: &TcpObservation) -> Option<u32> {
    s.calculate_distance(o)
}
fn tq(s: &dt::Signature, d: u32) -> f32 {
    <dt::Signature as DatabaseSignature<TcpObservation>>::get_quality_score(s, d)
}

/// initial TTL denoted by a form
fn ttl_init(t: TtlS) -> (bool, u16) {
    match t {
        TtlS::Value(a) => (false, a as u16),
        TtlS::Distance(a, d) => (false, a as u16 + d as u16),
        TtlS::Guess(a) => (false, a as u16),
        TtlS::Bad(a) => (true, a as u16),
    }
}
fn ttl_variant(t: TtlS) -> u8 {
    match t {
        TtlS::Value(_) => 0,
        TtlS::Distance(..) => 1,
        TtlS::Guess(_) => 2,
        TtlS::Bad(_) => 3,
    }
}

/// is `obs` an instance of signature TTL `sig` under the p0f reading
fn ttl_instance(obs: TtlS, sig: TtlS) -> bool {
    match (obs, sig) {
        (TtlS::Distance(t, d), TtlS::Value(i)) => t as u16 + d as u16 == i as u16,
        (TtlS::Value(t), TtlS::Value(i)) => t == i,
        (TtlS::Bad(a), TtlS::Bad(b)) => a == b,
        (TtlS::Guess(a), TtlS::Guess(b)) => a == b,
        (TtlS::Value(a), TtlS::Guess(b)) => a == b,
        (TtlS::Distance(a, b), TtlS::Distance(c, d)) => a == c && b == d,
        _ => false,
    }
}

#[derive(Clone, Debug, Serialize, Deserialize, Hash)]
pub struct TcpLaw {
    pub sig: TcpSigS,
    /// choices used by the instantiator
    pub ch: Vec<u16>,
    /// which field to perturb, and how
    pub pert: (u8, u16),
}

fn ch(c: &TcpLaw, i: usize) -> u16 {
    c.ch.get(i).copied().unwrap_or(0)
}

/// Build an observation that instantiates `sig` (same form for the window; wildcards filled from `ch`).
pub fn instantiate(c: &TcpLaw) -> Option<TcpObservation> {
    let s = &c.sig;
    let version = match s.ver {
        4 => dt::IpVersion::V4,
        6 => dt::IpVersion::V6,
        _ => {
            if ch(c, 0) % 2 == 0 {
                dt::IpVersion::V4
            } else {
                dt::IpVersion::V6
            }
        }
    };
    let ittl = match s.ittl {
        TtlS::Value(i) => {
            // TTL = ittl - hops, hops 0..=30 (not below 1)
            let hops = (ch(c, 1) % 31) as u8;
            if i == 0 {
                return None; // a signature with initial TTL 0 has no conforming traffic other than "bad"
            }
            let hops = hops.min(i - 1);
            dt::Ttl::Distance(i - hops, hops)
        }
        other => other.db(),
    };
    let mss_fill = [1460u16, 536, 1400, 8960, 100, 65535, 0][ch(c, 2) as usize % 7];
    let mss = match s.mss {
        Some(m) => Some(m),
        None => {
            if ch(c, 3) % 4 == 0 {
                None
            } else {
                Some(mss_fill)
            }
        }
    };
    let wscale = match s.wscale {
        Some(w) => Some(w),
        None => {
            if ch(c, 4) % 4 == 0 {
                None
            } else {
                Some((ch(c, 4) % 15) as u8)
            }
        }
    };
    let wsize = match s.wsize {
        WinS::Any => match ch(c, 5) % 4 {
            0 => dt::WindowSize::Value(ch(c, 6)),
            1 => dt::WindowSize::Mss((ch(c, 6) % 256) as u8),
            2 => dt::WindowSize::Mod([256u16, 512, 1024, 2048, 4096][ch(c, 6) as usize % 5]),
            _ => dt::WindowSize::Mtu((ch(c, 6) % 256) as u8),
        },
        WinS::Mss(n) => {
            // either the same form, or the raw value MSS*n with that MSS observed
            match (ch(c, 5) % 2, mss) {
                (1, Some(m)) if m > 0 && (m as u32 * n as u32) <= 65535 && n > 0 => dt::WindowSize::Value(m * n as u16),
                _ => dt::WindowSize::Mss(n),
            }
        }
        other => other.db(),
    };
    let pclass = match s.pclass {
        0 => dt::PayloadSize::Zero,
        1 => dt::PayloadSize::NonZero,
        _ => {
            if ch(c, 7) % 2 == 0 {
                dt::PayloadSize::Zero
            } else {
                dt::PayloadSize::NonZero
            }
        }
    };
    let d = s.db();
    // the quirk field is a set: an instance may carry it in any order
    let mut quirks = d.quirks;
    if !quirks.is_empty() {
        match ch(c, 8) % 4 {
            3 => {
                // the same set with one entry repeated (the analyzer itself emits `ecn` twice for ECT + ECE/CWR)
                let k = ch(c, 9) as usize % quirks.len();
                let q = quirks[k].clone();
                quirks.push(q);
            }
            1 => {
                let k = ch(c, 9) as usize % quirks.len();
                quirks.rotate_left(k)
            }
            2 => quirks.reverse(),
            _ => {}
        }
    }
    Some(TcpObservation { version, ittl, olen: s.olen, mss, wsize, wscale, olayout: d.olayout, quirks, pclass })
}

pub fn check_tcp_law(c: &TcpLaw, st: &mut Stats) -> Result<(), Fail> {
    let sig = c.sig.db();
    let inst = match instantiate(c) {
        Some(i) => i,
        None => {
            st.discards += 1;
            return Ok(());
        }
    };
    let wild = c.sig.ver == 0 || c.sig.mss.is_none() || c.sig.wscale.is_none() || c.sig.wsize == WinS::Any || c.sig.pclass == 2 || matches!(c.sig.ittl, TtlS::Value(_));
    if wild {
        st.nontrivial(c);
    }
    // L1
    match tdist(&sig, &inst) {
        Some(0) => {}
        other => return Err(fail!("L1:instance-not-distance-0", "sig {} obs {} -> {:?}", sig, inst, other)),
    }
    if tq(&sig, 0) != 1.0 {
        return Err(fail!("L1:quality-of-0-not-1.0", "{}", tq(&sig, 0)));
    }
    // "is accepted": also by the lookup a user calls - a database holding just this signature must return it, at quality 1.0
    {
        use huginn_net_db::db_matching_trait::FingerprintDb;
        let lbl = huginn_net_db::Label { ty: huginn_net_db::Type::Specified, class: None, name: "only".into(), flavor: None };
        let coll = huginn_net_db::db::FingerprintCollection::<TcpObservation, dt::Signature, huginn_net_db::db::TcpIndexKey>::new(vec![(lbl, vec![sig.clone()])]);
        match coll.find_best_match(&inst) {
            Some((_, _, q)) if q == 1.0 => {}
            other => return Err(fail!("L1:instance-not-accepted-by-a-database-holding-only-this-signature", "sig {} obs {} -> {:?}", sig, inst, other.map(|(l, s, q)| (l.name.clone(), format!("{s}"), q)))),
        }
    }
    // perturbations
    let (field, how) = c.pert;
    let mut p = inst.clone();
    match field % 9 {
        // ---- decisive fields: never accepted
        0 => {
            if c.sig.ver == 0 {
                return Ok(());
            }
            p.version = if p.version == dt::IpVersion::V4 { dt::IpVersion::V6 } else { dt::IpVersion::V4 };
            st.class("perturb:ip-version");
            expect_none(&sig, &p, "L2:ip-version")?;
        }
        1 => {
            // layout: change / remove / add one element
            let n = p.olayout.len();
            match how % 3 {
                0 => {
                    let i = idx(how, n);
                    let new = if p.olayout[i] == dt::TcpOption::Nop { dt::TcpOption::Sok } else { dt::TcpOption::Nop };
                    p.olayout[i] = new;
                }
                1 => {
                    p.olayout.push(dt::TcpOption::Nop);
                }
                _ => {
                    if n == 1 {
                        p.olayout.push(dt::TcpOption::Nop);
                    } else {
                        p.olayout.remove(idx(how, n));
                    }
                }
            }
            if p.olayout == sig.olayout {
                return Ok(());
            }
            st.class("perturb:layout");
            expect_none(&sig, &p, "L2:layout")?;
        }
        2 => {
            // quirks: add one that is absent, or remove one
            // only quirks that exist for the observation's IP version are decisive (df, id+, id-, 0+: IPv4; flow: IPv6)
            let relevant = |q: &dt::Quirk| -> bool {
                use dt::Quirk::*;
                !matches!((p.version, q), (dt::IpVersion::V6, Df | NonZeroID | ZeroID | MustBeZero) | (dt::IpVersion::V4, FlowID))
            };
            let all: Vec<dt::Quirk> = (0..17u8).map(sig::quirk_db).filter(|q| relevant(q)).collect();
            if how % 3 == 2 && p.quirks.len() >= 2 {
                // same length, other set: one entry is replaced by a copy of another one
                let i = idx(how, p.quirks.len());
                let j = (i + 1 + idx(how / 3, p.quirks.len() - 1)) % p.quirks.len();
                let removed = p.quirks[i].clone();
                p.quirks[i] = p.quirks[j].clone();
                if p.quirks.contains(&removed) || !relevant(&removed) {
                    return Ok(());
                }
                st.class("perturb:quirks-replaced-by-duplicate");
            } else if how % 2 == 0 || p.quirks.is_empty() {
                let absent: Vec<&dt::Quirk> = all.iter().filter(|q| !p.quirks.contains(q)).collect();
                if absent.is_empty() {
                    return Ok(());
                }
                p.quirks.push(absent[idx(how, absent.len())].clone());
            } else {
                let i = idx(how, p.quirks.len());
                let removed = p.quirks.remove(i);
                if p.quirks.contains(&removed) || !relevant(&removed) {
                    // a duplicate token was removed: the quirk *set* is unchanged, nothing is demanded
                    return Ok(());
                }
            }
            st.class("perturb:quirks");
            expect_none(&sig, &p, "L2:quirks")?;
        }
        3 => {
            if c.sig.pclass == 2 {
                return Ok(());
            }
            p.pclass = if p.pclass == dt::PayloadSize::Zero { dt::PayloadSize::NonZero } else { dt::PayloadSize::Zero };
            st.class("perturb:pclass");
            expect_none(&sig, &p, "L2:pclass")?;
        }
        // ---- non-decisive fields: +penalty
        4 => {
            p.olen = p.olen.wrapping_add(1 + (how % 200) as u8);
            if p.olen == sig.olen {
                return Ok(());
            }
            st.class("perturb:olen");
            expect_some(&sig, &p, 2, "L3:olen")?;
        }
        5 => {
            if let Some(m) = c.sig.mss {
                let nm = m.wrapping_add(1 + how % 1000);
                p.mss = if how % 5 == 0 { None } else { Some(nm) };
                // keep the window comparison unaffected: only for window forms that do not read the MSS
                if matches!(p.wsize, dt::WindowSize::Value(_)) && matches!(sig.wsize, dt::WindowSize::Mss(_)) {
                    return Ok(());
                }
                st.class("perturb:mss");
                expect_some(&sig, &p, 2, "L3:mss")?;
            }
        }
        6 => {
            if let Some(w) = c.sig.wscale {
                p.wscale = if how % 5 == 0 { None } else { Some(w.wrapping_add(1 + (how % 100) as u8)) };
                st.class("perturb:wscale");
                expect_some(&sig, &p, 1, "L3:wscale")?;
            }
        }
        7 => {
            // TTL: another initial TTL in the same form
            match (&inst.ittl, c.sig.ittl) {
                (dt::Ttl::Distance(t, d), TtlS::Value(_)) => {
                    let nd = d.wrapping_add(1 + (how % 20) as u8);
                    if *t as u16 + nd as u16 > 255 {
                        return Ok(());
                    }
                    p.ittl = dt::Ttl::Distance(*t, nd);
                }
                (dt::Ttl::Bad(a), _) => p.ittl = dt::Ttl::Bad(a.wrapping_add(1)),
                (dt::Ttl::Guess(a), _) => p.ittl = dt::Ttl::Guess(a.wrapping_add(1)),
                (dt::Ttl::Distance(a, b), _) => p.ittl = dt::Ttl::Distance(a.wrapping_add(1), *b),
                (dt::Ttl::Value(a), _) => p.ittl = dt::Ttl::Value(a.wrapping_add(1)),
            }
            st.class("perturb:ttl");
            expect_some(&sig, &p, 2, "L3:ttl")?;
        }
        _ => {
            // window: same form, other value
            let nw = match (&inst.wsize, c.sig.wsize) {
                (_, WinS::Any) => return Ok(()),
                (dt::WindowSize::Mss(n), _) => dt::WindowSize::Mss(n.wrapping_add(1 + (how % 100) as u8)),
                (dt::WindowSize::Mtu(n), _) => dt::WindowSize::Mtu(n.wrapping_add(1 + (how % 100) as u8)),
                (dt::WindowSize::Mod(n), _) => dt::WindowSize::Mod(n.wrapping_add(1 + how % 100)),
                (dt::WindowSize::Value(v), WinS::Value(_)) => dt::WindowSize::Value(v.wrapping_add(1 + how % 100)),
                (dt::WindowSize::Value(v), WinS::Mss(n)) => {
                    // another raw value: either a few bytes off (same floor ratio, no longer a multiple) or whole MSS steps off
                    let m = inst.mss.unwrap_or(1).max(1);
                    let nv = if how % 2 == 0 { v.wrapping_add(1 + (how / 2) % 100) } else { v.wrapping_add(m.saturating_mul(1 + (how / 2) % 3)) };
                    if nv as u32 == m as u32 * n as u32 {
                        return Ok(());
                    }
                    st.class(if nv / m == n as u16 { "perturb:window-raw-same-floor-ratio" } else { "perturb:window-raw-other-ratio" });
                    dt::WindowSize::Value(nv)
                }
                _ => return Ok(()),
            };
            p.wsize = nw;
            st.class("perturb:window");
            expect_some(&sig, &p, 2, "L3:window")?;
        }
    }
    Ok(())
}

fn expect_none(sig: &dt::Signature, p: &TcpObservation, what: &str) -> Result<(), Fail> {
    match tdist(sig, p) {
        None => Ok(()),
        Some(d) => Err(fail!(format!("{what}:accepted"), "sig {} obs {} -> Some({})", sig, p, d)),
    }
}
fn expect_some(sig: &dt::Signature, p: &TcpObservation, d: u32, what: &str) -> Result<(), Fail> {
    match tdist(sig, p) {
        Some(x) if x == d => Ok(()),
        other => Err(fail!(format!("{what}:penalty"), "sig {} obs {} -> {:?}, expected Some({})", sig, p, other, d)),
    }
}

// ------------------------------------------------------------------------------------------------
// HTTP
// ------------------------------------------------------------------------------------------------
#[derive(Clone, Debug, Serialize, Deserialize, Hash)]
pub struct HttpLaw {
    pub sig: HttpSigS,
    pub ch: Vec<u16>,
    /// software string mode: 0 exact, 1 embedded (prefix+token+suffix), 2 unrelated
    pub sw: u8,
    /// number of required headers whose value is changed
    pub changes: u8,
    pub response: bool,
}

fn band(errors: u32) -> Option<u32> {
    match errors {
        0..=2 => Some(0),
        3..=5 => Some(1),
        6..=8 => Some(2),
        9..=11 => Some(3),
        _ => None,
    }
}

fn hdist(sig: &huginn_net_db::http::Signature, horder: Vec<huginn_net_db::http::Header>, habsent: Vec<huginn_net_db::http::Header>, version: huginn_net_db::http::Version, expsw: String, response: bool) -> (Option<u32>, f32) {
    if response {
        let o = HttpResponseObservation { version, horder, habsent, expsw };
        let d = <huginn_net_db::http::Signature as DatabaseSignature<HttpResponseObservation>>::calculate_distance(sig, &o);
        (d, <huginn_net_db::http::Signature as DatabaseSignature<HttpResponseObservation>>::get_quality_score(sig, d.unwrap_or(0)))
    } else {
        let o = HttpRequestObservation { version, horder, habsent, expsw };
        let d = <huginn_net_db::http::Signature as DatabaseSignature<HttpRequestObservation>>::calculate_distance(sig, &o);
        (d, <huginn_net_db::http::Signature as DatabaseSignature<HttpRequestObservation>>::get_quality_score(sig, d.unwrap_or(0)))
    }
}

pub fn check_http_law(ctx: &Ctx, c: &HttpLaw, st: &mut Stats) -> Result<(), Fail> {
    use huginn_net_db::http::{Header, Version};
    let sig = c.sig.db();
    let chv = |i: usize| c.ch.get(i).copied().unwrap_or(0);
    let version = match sig.version {
        Version::Any => [Version::V10, Version::V11][chv(0) as usize % 2],
        v => v,
    };
    // horder instance: required headers verbatim; optional ones dropped / kept / kept with another value
    let mut horder: Vec<Header> = vec![];
    let mut used_optional = false;
    for (i, h) in sig.horder.iter().enumerate() {
        if h.optional {
            used_optional = true;
            match chv(1 + i) % 3 {
                0 => {}
                1 => horder.push(Header { optional: false, name: h.name.clone(), value: h.value.clone() }),
                _ => horder.push(Header { optional: false, name: h.name.clone(), value: Some("other-value".into()) }),
            }
        } else {
            horder.push(Header { optional: false, name: h.name.clone(), value: h.value.clone() });
        }
    }
    // two adjacent signature headers with the same name make "dropping" ambiguous for the aligner: keep those verbatim
    let ambiguous = sig.horder.windows(2).any(|w| w[0].name == w[1].name) || {
        let names: Vec<&String> = sig.horder.iter().map(|h| &h.name).collect();
        let mut s = names.clone();
        s.sort();
        s.dedup();
        s.len() != names.len()
    };
    if ambiguous {
        horder = sig.horder.iter().map(|h| Header { optional: false, name: h.name.clone(), value: h.value.clone() }).collect();
    }
    let habsent: Vec<Header> = sig.habsent.iter().map(|h| Header { optional: false, name: h.name.clone(), value: h.value.clone() }).collect();
    let expsw = match c.sw {
        0 => sig.expsw.clone(),
        1 => format!("Mozilla/5.0 (X11) {} 1.2.3", sig.expsw),
        _ => "zzz-unrelated-software-zzz".to_string(),
    };
    if used_optional || sig.version == Version::Any || c.sw == 1 {
        st.nontrivial(c);
    }
    st.class(match c.sw {
        0 => "software:exact",
        1 => "software:embedded",
        _ => "software:unrelated",
    });
    let contains = expsw.contains(&sig.expsw);
    let (d, q) = hdist(&sig, horder.clone(), habsent.clone(), version, expsw.clone(), c.response);
    if contains {
        // L1: instance
        match d {
            Some(0) => {
                if q != 1.0 {
                    return Err(fail!("http:L1:quality-of-0-not-1.0", "{q}"));
                }
                // "is accepted": also by the lookup of a database holding just this signature
                use huginn_net_db::db_matching_trait::FingerprintDb;
                let lbl = huginn_net_db::Label { ty: huginn_net_db::Type::Specified, class: None, name: "only".into(), flavor: None };
                let found = if c.response {
                    let o = HttpResponseObservation { version, horder: horder.clone(), habsent: habsent.clone(), expsw: expsw.clone() };
                    huginn_net_db::db::FingerprintCollection::<HttpResponseObservation, huginn_net_db::http::Signature, huginn_net_db::db::HttpIndexKey>::new(vec![(lbl, vec![sig.clone()])]).find_best_match(&o).map(|(_, _, q)| q)
                } else {
                    let o = HttpRequestObservation { version, horder: horder.clone(), habsent: habsent.clone(), expsw: expsw.clone() };
                    huginn_net_db::db::FingerprintCollection::<HttpRequestObservation, huginn_net_db::http::Signature, huginn_net_db::db::HttpIndexKey>::new(vec![(lbl, vec![sig.clone()])]).find_best_match(&o).map(|(_, _, q)| q)
                };
                if found != Some(1.0) {
                    return Err(fail!("http:L1:instance-not-accepted-by-a-database-holding-only-this-signature", "sig {} obs horder {:?} expsw {:?} -> {:?}", sig, horder.iter().map(|h| format!("{h}")).collect::<Vec<_>>(), expsw, found));
                }
            }
            Some(3) if expsw != sig.expsw && ctx.is_known(K_EXPSW) => {
                st.known(K_EXPSW);
            }
            other => return Err(fail!("http:L1:instance-not-distance-0", "sig {} obs horder {:?} expsw {:?} -> {:?}", sig, horder.iter().map(|h| format!("{h}")).collect::<Vec<_>>(), expsw, other)),
        }
    } else {
        match d {
            Some(3) => {}
            other => return Err(fail!("http:L3:software-mismatch-penalty", "sig {} expsw {:?} -> {:?} expected Some(3)", sig, expsw, other)),
        }
    }
    let base = d.unwrap_or(0);
    // L2: other concrete version under a concrete-version signature
    if sig.version != Version::Any {
        let other = if sig.version == Version::V10 { Version::V11 } else { Version::V10 };
        let (d2, _) = hdist(&sig, horder.clone(), habsent.clone(), other, expsw.clone(), c.response);
        if d2.is_some() {
            return Err(fail!("http:L2:version:accepted", "sig {} with version {:?} -> {:?}", sig, other, d2));
        }
    }
    // L3: change the value of k required headers: errors = k exactly -> band(k)
    // required headers whose listed value is a non-empty string (an empty listed value is contained in anything)
    let req_idx: Vec<usize> = horder.iter().enumerate().filter(|(_, h)| sig.horder.iter().any(|s| !s.optional && s.name == h.name && s.value == h.value && s.value.as_deref().map(|v| !v.is_empty()).unwrap_or(true))).map(|(i, _)| i).collect();
    if !ambiguous && !req_idx.is_empty() {
        let k = (c.changes as usize).min(req_idx.len());
        let mut h2 = horder.clone();
        for i in req_idx.iter().take(k) {
            // a value that does not contain the listed one (listed values are substrings)
            h2[*i].value = Some("\u{1}\u{2}".to_string());
        }
        let (d3, q3) = hdist(&sig, h2, habsent.clone(), version, expsw.clone(), c.response);
        let exp = band(k as u32).map(|b| b + base);
        if d3 != exp {
            return Err(fail!("http:L3:header-band", "sig {} with {} changed required header values -> {:?}, expected {:?}", sig, k, d3, exp));
        }
        if let Some(x) = d3 {
            if x > 0 && q3 >= 1.0 {
                return Err(fail!("http:L4:quality-1.0-at-nonzero-distance", "{x} -> {q3}"));
            }
        }
        // habsent: one extra absent header in the observation
        let mut a2 = habsent.clone();
        a2.push(Header::new("X-Extra-Absent"));
        let (d4, _) = hdist(&sig, horder.clone(), a2, version, expsw.clone(), c.response);
        match d4 {
            Some(x) if x >= base => {}
            other => return Err(fail!("http:L3:habsent-lowers", "{:?} < base {}", other, base)),
        }
    }
    Ok(())
}

pub fn run(ctx: &Ctx) {
    ctx.assume("instances are built in the signature's own window form (plus the raw value MSS*n for mss*n signatures); cross-form instances (e.g. a window divisible by 4096 against %1024) are C13's subject");
    ctx.assume("TTL forms are 'comparable' when they are the same variant; header errors move the distance along the documented bands 0-2/3-5/6-8/9-11");
    // (A) all TTL pairs
    let forms = 4u64;
    ctx.run_indexed("ttl-pairs-exhaustive", "all (observed form, signature form) pairs over all u8 payloads: Value/Guess/Bad x 256, Distance x 256 x hops 0..=30 (observed side) against Value/Guess/Bad/Distance(.,0..3); laws: instance => 0, same-variant non-instance => exactly 2, anything else in {2, rejected}", true, forms * 256, |i, st| {
        let of = i / 256;
        let a = (i % 256) as u8;
        let obs_list: Vec<TtlS> = match of {
            0 => vec![TtlS::Value(a)],
            1 => (0..=30u8).map(|d| TtlS::Distance(a, d)).collect(),
            2 => vec![TtlS::Guess(a)],
            _ => vec![TtlS::Bad(a)],
        };
        for obs in obs_list {
            for sf in 0..4u8 {
                for b in 0..=255u8 {
                    let sigs: Vec<TtlS> = match sf {
                        0 => vec![TtlS::Value(b)],
                        1 => vec![TtlS::Distance(b, 0), TtlS::Distance(b, 1), TtlS::Distance(b, 3)],
                        2 => vec![TtlS::Guess(b)],
                        _ => vec![TtlS::Bad(b)],
                    };
                    for sg in sigs {
                        // initial TTLs above 255 do not exist: keep Distance forms inside the u8 range
                        if ttl_init(obs).1 > 255 || ttl_init(sg).1 > 255 {
                            continue;
                        }
                        st.evals += 1;
                        let got = obs.db().distance_ttl(&sg.db());
                        let inst = ttl_instance(obs, sg);
                        if inst {
                            st.nontrivial(&(obs, sg));
                        }
                        let ok = if inst {
                            got == Some(0)
                        } else if ttl_variant(obs) == ttl_variant(sg) {
                            got == Some(2)
                        } else {
                            // not comparable: must not be *better* than a mismatch; same initial TTL may be accepted at 0
                            let same_init = ttl_init(obs) == ttl_init(sg);
                            got.is_none() || got == Some(2) || (same_init && got == Some(0))
                        };
                        if !ok {
                            st.fail(fail!("ttl-pair", "obs {:?} sig {:?} -> {:?} (instance {})", obs, sg, got, inst), json!({"obs": format!("{:?}", obs), "sig": format!("{:?}", sg)}));
                        }
                    }
                }
            }
        }
        st.sample(|| json!({"observed_form": of, "payload": a}));
    });
    // (B) window pairs over a value pool
    let pool: Vec<u16> = vec![0, 1, 2, 3, 4, 5, 10, 44, 45, 64, 100, 255, 256, 512, 1024, 1460, 2048, 4096, 5840, 8192, 16384, 32768, 65535];
    let mk = |f: u64, v: u16| -> WinS {
        match f {
            0 => WinS::Mss(v as u8),
            1 => WinS::Mtu(v as u8),
            2 => WinS::Value(v),
            3 => WinS::Mod(v),
            _ => WinS::Any,
        }
    };
    let np = pool.len() as u64;
    ctx.run_indexed("window-pairs", "all (observed form, signature form) pairs over a 23-value pool incl. boundaries x MSS in {none, 0, 1, 536, 1460, 65535}; laws: same form equal => 0, same form different => 2, signature `*` => 0, raw value vs mss*n => 0 iff value == MSS*n exactly, never anything but {0,2,rejected}", true, 4 * np * 5 * np, |i, st| {
        let mut k = i;
        let of = k % 4; k /= 4;
        let ov = pool[(k % np) as usize]; k /= np;
        let sf = k % 5; k /= 5;
        let sv = pool[(k % np) as usize];
        let obs = mk(of, ov);
        let sg = mk(sf, sv);
        for mss in [None, Some(0u16), Some(1), Some(536), Some(1460), Some(65535)] {
            st.evals += 1;
            let got = obs.db().distance_window_size(&sg.db(), mss);
            let ok = match (obs, sg) {
                (_, WinS::Any) => got == Some(0),
                (a, b) if std::mem::discriminant(&a) == std::mem::discriminant(&b) => {
                    st.nontrivial(&(a, b));
                    if a == b { got == Some(0) } else { got == Some(2) }
                }
                (WinS::Value(v), WinS::Mss(n)) => match mss {
                    Some(m) if m > 0 && v as u32 == m as u32 * n as u32 => got == Some(0),
                    _ => got == Some(2) || got.is_none(),
                },
                _ => got.is_none() || got == Some(2),
            };
            if !ok {
                st.fail(fail!("window-pair", "obs {:?} sig {:?} mss {:?} -> {:?}", obs, sg, mss, got), json!({"obs": format!("{:?}", obs), "sig": format!("{:?}", sg), "mss": mss}));
            }
        }
        st.sample(|| json!({"obs": format!("{:?}", obs), "sig": format!("{:?}", sg)}));
    });
    // (C) quality tables
    let n = ctx.tier.pick(1u64 << 22, 1u64 << 32);
    let tsig = sig::TcpSigS { ver: 4, ittl: TtlS::Value(64), olen: 0, mss: None, wsize: WinS::Any, wscale: None, olayout: vec![OptS::Mss], quirks: vec![], pclass: 0 }.db();
    let hsig = HttpSigS { version: 1, horder: vec![HdrS { optional: false, name: "Host".into(), value: None }], habsent: vec![], expsw: String::new() }.db();
    let exhaustive = n == 1u64 << 32;
    ctx.run_indexed("quality-tables", "both score tables over all distances below 2^22 (quick) / all 2^32 distances (thorough) plus the top of the range: quality within [0.05,1.0], non-increasing, 1.0 iff distance 0", exhaustive, 4096, |chunk, st| {
        let per = n / 4096;
        let lo = chunk * per;
        let hi = lo + per;
        let q = |d: u32| -> (f32, f32) {
            (tq(&tsig, d), <huginn_net_db::http::Signature as DatabaseSignature<HttpRequestObservation>>::get_quality_score(&hsig, d))
        };
        let mut prev = if lo == 0 { (1.0f32, 1.0f32) } else { q((lo - 1) as u32) };
        let check = |d: u32, prev: &mut (f32, f32), st: &mut Stats| {
            let (a, b) = q(d);
            st.evals += 1;
            for (name, x, p) in [("tcp", a, prev.0), ("http", b, prev.1)] {
                if !(0.05..=1.0).contains(&x) || x > p || (x == 1.0) != (d == 0) {
                    st.fail(fail!(format!("quality:{name}"), "distance {d} -> {x} (previous {p})"), json!({"distance": d}));
                }
            }
            *prev = (a, b);
        };
        for d in lo..hi {
            check(d as u32, &mut prev, st);
        }
        if chunk == 4095 {
            // the top of the u32 range
            let mut p2 = q(u32::MAX - 70000);
            for d in (u32::MAX - 70000 + 1)..=u32::MAX {
                check(d, &mut p2, st);
            }
            st.evals += 1;
        }
        if lo < 40 {
            for d in lo..hi.min(40) {
                st.nontrivial(&d);
            }
            st.sample(|| json!({"distances": format!("{}..{}", lo, hi), "q(0..20)": (0..20u32).map(|d| q(d).0).collect::<Vec<f32>>()}));
        }
    });
    // (D) whole TCP signatures
    let n = ctx.tier.pick(1_500_000, 30_000_000);
    ctx.run_prop(
        "tcp-signature-laws",
        "proptest TCP signatures over the whole vocabulary x instantiator (wildcards filled with generated concrete values; TTL = ittl - hops 0..30; mss*n also as raw MSS*n) x one generated single-field perturbation; L1 instance => distance 0 / quality 1.0, L2 decisive field => rejected, L3 non-decisive => exactly the field penalty (olen 2, mss 2, wscale 1, ttl 2, window 2); non-trivial: signature has a wildcard that the instance fills",
        n,
        || (sig::tcp_sig(), proptest::collection::vec(any::<u16>(), 10), (0u8..9, any::<u16>())).prop_map(|(sig, ch, pert)| TcpLaw { sig, ch, pert }),
        |c: &TcpLaw, st: &mut Stats| {
            st.sample(|| json!({"sig": format!("{}", c.sig.db()), "instance": instantiate(c).map(|o| format!("{o}")), "perturb": c.pert}));
            check_tcp_law(c, st)
        },
    );
    // (E) HTTP signatures
    let n = ctx.tier.pick(600_000, 15_000_000);
    ctx.run_prop(
        "http-signature-laws",
        "proptest HTTP signatures (version 0/1/*, optional marks, values, absent lists, software strings) x instantiator (optional headers dropped / kept / kept with another value; software string exact, embedded in a longer string, or unrelated) for requests and responses; L1, L2 (other concrete version), L3 (k changed required values => documented band; extra absent header never lowers); non-trivial: optional header, `*` version or embedded software string",
        n,
        || (sig::http_sig(), proptest::collection::vec(any::<u16>(), 12), 0u8..3, 0u8..13, any::<bool>()).prop_map(|(sig, ch, sw, changes, response)| HttpLaw { sig, ch, sw, changes, response }),
        |c: &HttpLaw, st: &mut Stats| {
            st.sample(|| json!({"sig": format!("{}", c.sig.db()), "software_mode": c.sw, "changed_values": c.changes}));
            check_http_law(ctx, c, st)
        },
    );
    // (F) every bundled signature is an instance of itself / of its own instantiation
    let db = crate::drive::default_db();
    let mut all: Vec<dt::Signature> = vec![];
    for coll in [&db.tcp_request, &db.tcp_response] {
        for (_l, sigs) in &coll.entries {
            all.extend(sigs.iter().cloned());
        }
    }
    let na = all.len() as u64;
    ctx.run_indexed("bundled-tcp-signatures", "every TCP signature of p0f.fp x 31 hop counts x {v4,v6 where admitted}: the same-form instance has distance 0", true, na, |i, st| {
        let s = &all[i as usize];
        for hops in 0..=30u8 {
            for v in [dt::IpVersion::V4, dt::IpVersion::V6] {
                if s.version != dt::IpVersion::Any && s.version != v {
                    continue;
                }
                let ittl = match s.ittl {
                    dt::Ttl::Value(i) if i > hops => dt::Ttl::Distance(i - hops, hops),
                    ref o => o.clone(),
                };
                let o = TcpObservation {
                    version: v,
                    ittl,
                    olen: s.olen,
                    mss: s.mss.or(Some(1400)),
                    wsize: if s.wsize == dt::WindowSize::Any { dt::WindowSize::Value(1234) } else { s.wsize.clone() },
                    wscale: s.wscale.or(Some(3)),
                    olayout: s.olayout.clone(),
                    quirks: s.quirks.clone(),
                    pclass: if s.pclass == dt::PayloadSize::Any { dt::PayloadSize::Zero } else { s.pclass },
                };
                st.evals += 1;
                st.nontrivial(&(i, hops, v == dt::IpVersion::V4));
                if tdist(s, &o) != Some(0) {
                    st.fail(fail!("bundled:L1", "sig {} obs {} -> {:?}", s, o, tdist(s, &o)), json!({"sig": format!("{s}")}));
                }
            }
        }
        st.sample(|| json!({"sig": format!("{s}")}));
    });
}

pub fn replay(ctx: &Ctx, sub: &str, input: &serde_json::Value) -> Result<(), Fail> {
    let mut st = Stats::new();
    match sub {
        "tcp-signature-laws" => {
            let c: TcpLaw = serde_json::from_value(input["value"].clone()).map_err(|e| fail!("bad-replay", "{e}"))?;
            check_tcp_law(&c, &mut st)
        }
        "http-signature-laws" => {
            let c: HttpLaw = serde_json::from_value(input["value"].clone()).map_err(|e| fail!("bad-replay", "{e}"))?;
            check_http_law(ctx, &c, &mut st)
        }
        _ => Err(fail!("bad-replay", "sub {sub}: exhaustive sub-domain, re-run the check")),
    }
}
