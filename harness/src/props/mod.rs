use crate::engine::Ctx;

pub fn run(ctx: &Ctx) -> bool {
    match ctx.id.as_str() {
        _ => return false,
    }
    #[allow(unreachable_code)]
    true
}

/// Re-execute one saved case (a file written by a failing run) without the generator library.
pub fn replay(ctx: &Ctx, path: &str) -> i32 {
    let text = match std::fs::read_to_string(path) {
        Ok(t) => t,
        Err(e) => {
            eprintln!("cannot read {path}: {e}");
            return 2;
        }
    };
    let v: serde_json::Value = match serde_json::from_str(&text) {
        Ok(v) => v,
        Err(e) => {
            eprintln!("bad replay file: {e}");
            return 2;
        }
    };
    let _ = (ctx, v);
    2
}
