use crate::engine::{Ctx, Fail};

pub mod c01;
pub mod c02;
pub mod c03;
pub mod c04;
pub mod c05;
pub mod c06;
pub mod c07;
pub mod c08;
pub mod c09;
pub mod c10;
pub mod c11;
pub mod c12;
pub mod c13;
pub mod c14;
pub mod c15;
pub mod c16;
pub mod c17;
pub mod c18;
pub mod c19;
pub mod c20;

pub fn run(ctx: &Ctx) -> bool {
    match ctx.id.as_str() {
        "C01" => {
            c01::run(ctx);
            c01::run_same_flow(ctx);
            c01::run_hostile_heads(ctx)
        }
        "C02" => c02::run(ctx),
        "C03" => c03::run(ctx),
        "C04" => c04::run(ctx),
        "C05" => c05::run(ctx),
        "C06" => c06::run(ctx),
        "C07" => {
            c07::run(ctx);
            c07::run_pool_isolation(ctx);
            c07::run_pcap_loop(ctx)
        }
        "C08" => {
            c08::run(ctx);
            c08::run_pool_variant(ctx);
            c08::run_capture_loop(ctx);
            c08::run_tuple_reuse(ctx);
            c08::fuzz(ctx)
        }
        "C09" => c09::run(ctx),
        "C10" => {
            c10::run(ctx);
            c10::run_filtered(ctx);
            c10::run_api(ctx)
        }
        "C11" => {
            c11::run(ctx);
            c11::run_churn(ctx);
            c11::run_pool_memory(ctx);
            c11::run_tiny_segments(ctx)
        }
        "C12" => c12::run(ctx),
        "C13" => {
            c13::run(ctx);
            c13::run_generated(ctx);
            c13::run_generated_http(ctx);
            c13::run_parallel_mode(ctx)
        }
        "C14" => c14::run(ctx),
        "C15" => {
            c15::run(ctx);
            c15::run_pools(ctx);
            c15::run_api(ctx)
        }
        "C16" => c16::run(ctx),
        "C17" => {
            c17::run(ctx);
            c17::fuzz(ctx)
        }
        "C18" => c18::run(ctx),
        "C19" => {
            c19::run(ctx);
            c19::run_many(ctx)
        }
        "C20" => c20::run(ctx),
        _ => return false,
    }
    true
}

/// in-process re-execution of a libFuzzer artifact (replay of a campaign's crash): the target's own entry function
pub fn replay_artifact(target: &str, data: &[u8]) -> Result<(), Fail> {
    let r = crate::engine::catch(|| match target {
        "frames" => Ok(c01::fuzz_frame(data)),
        "streams" => Ok(c01::fuzz_stream(data)),
        "db_text" => {
            if let Ok(s) = std::str::from_utf8(data) {
                c01::fuzz_text(s)
            }
            Ok(())
        }
        "tls_segments" => Ok(c08::fuzz_segments(data)),
        "akamai_chunks" => Ok(c17::fuzz_chunks(data)),
        _ => Err(Fail::new("bad-replay", format!("unknown fuzz target {target}"))),
    });
    match r {
        Ok(x) => x,
        Err(p) => Err(Fail::new(crate::engine::panic_key(&p), p)),
    }
}

fn replay_one(ctx: &Ctx, sub: &str, input: &serde_json::Value) -> Option<Result<(), Fail>> {
    let _ = sub;
    Some(match ctx.id.as_str() {
        "C01" => c01::replay(ctx, sub, input),
        "C02" => c02::replay(ctx, sub, input),
        "C03" => c03::replay(ctx, input),
        "C04" => c04::replay(ctx, sub, input),
        "C05" => c05::replay(ctx, sub, input),
        "C06" => c06::replay(ctx, sub, input),
        "C07" => c07::replay(ctx, sub, input),
        "C08" => c08::replay(ctx, sub, input),
        "C09" => c09::replay(ctx, sub, input),
        "C10" => c10::replay(ctx, sub, input),
        "C11" => c11::replay(ctx, sub, input),
        "C12" => c12::replay(ctx, sub, input),
        "C13" => c13::replay(ctx, sub, input),
        "C14" => c14::replay(ctx, input),
        "C15" => c15::replay(ctx, sub, input),
        "C16" => c16::replay(ctx, sub, input),
        "C17" => c17::replay(ctx, sub, input),
        "C18" => c18::replay(ctx, sub, input),
        "C19" => c19::replay(ctx, sub, input),
        "C20" => c20::replay(ctx, sub, input),
        _ => return None,
    })
}

/// Re-execute one saved case (a file written by a failing run) without the generator library.
/// exit code: 0 = the case passes now, 1 = it (still) violates the property, 2 = cannot replay
pub fn replay(ctx: &Ctx, path: &str) -> i32 {
    let text = match std::fs::read_to_string(path) {
        Ok(t) => t,
        Err(e) => {
            eprintln!("cannot read {path}: {e}");
            return 2;
        }
    };
    let v: serde_json::Value = match serde_json::from_str(&text) {
        Ok(v) => v,
        Err(e) => {
            eprintln!("bad replay file: {e}");
            return 2;
        }
    };
    let sub = v["sub"].as_str().unwrap_or("").to_string();
    let result = if sub.starts_with("libfuzzer:") {
        let art = v["input"]["artifact"].as_str().unwrap_or("");
        match std::fs::read(art) {
            Ok(data) => Some(replay_artifact(v["input"]["target"].as_str().unwrap_or(""), &data)),
            Err(e) => {
                eprintln!("cannot read artifact {art}: {e}");
                return 2;
            }
        }
    } else {
        replay_one(ctx, &sub, &v["input"])
    };
    match result {
        None => {
            eprintln!("property {} has no replay support", ctx.id);
            2
        }
        Some(Ok(())) => {
            println!("REPLAY-PASS property={} file={}", ctx.id, path);
            0
        }
        Some(Err(f)) => {
            eprintln!("replay: {} :: {}", f.what, f.detail);
            println!("VIOLATION property={} replay={}", ctx.id, path);
            1
        }
    }
}
