//! C20 — the unified analyzer equals the union of the protocol analyzers; configuration only masks.
use crate::drive::{self, HttpState, TcpOut, TlsState};
use crate::engine::{hex, truncate, Ctx, Fail, Stats};
use crate::gen::trace::{self, Packet, TraceCase};
use proptest::prelude::*;
use serde::{Deserialize, Serialize};
use serde_json::json;

#[derive(Clone, Debug, Serialize, Deserialize, Hash)]
pub struct UniCase {
    pub trace: TraceCase,
    /// malformed frames inserted at generated positions
    pub junk: Vec<(u16, Vec<u8>)>,
    /// bit 0 tcp, 1 http, 2 tls, 3 matcher
    pub config: u8,
    pub with_db: bool,
    /// copies of trace packets behind other 4-byte loopback-style link headers (packet selector, header selector)
    #[serde(default)]
    pub reframed: Vec<(u16, u8)>,
    /// connection-opening segments with extra flag bits or-ed in (connection selector, flag bits): SYN|FIN, SYN|RST, SYN|PSH|URG ...
    /// What each protocol analyzer makes of such an opening differs (one refuses the segment, another starts tracking the flow on it); the
    /// unified analyzer has to make of it exactly what each of them does
    #[serde(default)]
    pub hostile_syn: Vec<(u16, u8)>,
}

/// or `bits` into the TCP flag octet of an Ethernet / raw-IP frame (IPv4 with any IHL, IPv6 without extension headers)
pub fn or_tcp_flags(f: &mut [u8], bits: u8) {
    let off = if f.len() > 14 && (f[12], f[13]) == (0x08, 0x00) || f.len() > 14 && (f[12], f[13]) == (0x86, 0xdd) { 14 } else { 0 };
    if f.len() <= off {
        return;
    }
    let ip = match f[off] >> 4 {
        4 => ((f[off] & 0x0f) as usize * 4).max(20),
        6 => 40,
        _ => return,
    };
    if let Some(b) = f.get_mut(off + ip + 13) {
        *b |= bits;
    }
}

/// link headers next to the one the decoders accept (`1e 00 00 00`): BSD AF_INET / AF_INET6 values in both byte orders, one-byte-off variants
pub const LOOP_HDRS: [[u8; 4]; 8] = [[0x02, 0, 0, 0], [0x18, 0, 0, 0], [0x1c, 0, 0, 0], [0x1e, 0, 0, 0], [0, 0, 0, 0x02], [0x1e, 0x01, 0, 0], [0x1f, 0, 0, 0], [0x00, 0x00, 0, 0]];

pub fn frames_of(c: &UniCase) -> Vec<Packet> {
    let mut pk = c.trace.interleaved();
    for (sel, bits) in &c.hostile_syn {
        let conn = crate::engine::idx(*sel, c.trace.conns.len().max(1));
        if let Some(p) = pk.iter_mut().find(|p| p.conn == conn && p.from_client) {
            or_tcp_flags(&mut p.frame, *bits);
        }
    }
    let off = if c.trace.link == crate::gen::frames::Link::Ether { 14 } else { 0 };
    let n0 = pk.len();
    for (k, (sel, h)) in c.reframed.iter().enumerate() {
        if n0 == 0 {
            break;
        }
        let i = (crate::engine::idx(*sel, n0) + k).min(pk.len() - 1);
        if pk[i].conn == usize::MAX || pk[i].frame.len() <= off {
            continue;
        }
        let mut f = LOOP_HDRS[*h as usize % LOOP_HDRS.len()].to_vec();
        f.extend_from_slice(&pk[i].frame[off..]);
        let copy = Packet { conn: usize::MAX, from_client: pk[i].from_client, frame: f, at: pk[i].at, tsval: None, payload_len: 0 };
        pk.insert(i + 1, copy);
    }
    for (pos, bytes) in &c.junk {
        let i = crate::engine::idx(*pos, pk.len() + 1);
        pk.insert(i, Packet { conn: usize::MAX, from_client: true, frame: bytes.clone(), at: 1_000_000, tsval: None, payload_len: 0 });
    }
    pk
}

fn tls_stateless(f: &[u8]) -> Result<Option<String>, String> {
    use huginn_net_tls::packet_parser::{parse_packet, IpPacket};
    use pnet::packet::tcp::TcpPacket;
    use pnet::packet::Packet as _;
    let (pkg, src, dst, tcp_ports) = match parse_packet(f) {
        IpPacket::Ipv4(p) => {
            let ports = TcpPacket::new(p.payload()).map(|t| (t.get_source(), t.get_destination()));
            (huginn_net_tls::process_tls_ipv4(&p).map_err(|e| e.to_string())?, std::net::IpAddr::V4(p.get_source()), std::net::IpAddr::V4(p.get_destination()), ports)
        }
        IpPacket::Ipv6(p) => {
            let ports = TcpPacket::new(p.payload()).map(|t| (t.get_source(), t.get_destination()));
            (huginn_net_tls::process_tls_ipv6(&p).map_err(|e| e.to_string())?, std::net::IpAddr::V6(p.get_source()), std::net::IpAddr::V6(p.get_destination()), ports)
        }
        IpPacket::None => return Err("NOT-IP".into()),
    };
    Ok(pkg.tls_client.map(|c| {
        let (sp, dp) = tcp_ports.unwrap_or((0, 0));
        format!("{}:{} -> {}:{} {:?}", src, sp, dst, dp, c)
    }))
}

pub fn check(c: &UniCase, st: &mut Stats) -> Result<(), Fail> {
    let tcp_on = c.config & 1 != 0;
    let http_on = c.config & 2 != 0;
    let tls_on = c.config & 4 != 0;
    let matcher_on = c.config & 8 != 0;
    let needs_db = matcher_on && (tcp_on || http_on);
    let with_db = c.with_db || needs_db;
    let cfg = huginn_net::AnalysisConfig { http_enabled: http_on, tcp_enabled: tcp_on, tls_enabled: tls_on, matcher_enabled: matcher_on };
    let db = drive::default_db();
    let mut uni = huginn_net::HuginnNet::new(if with_db { Some(db) } else { None }, 1000, Some(cfg.clone())).map_err(|e| fail!("unified:new", "{e}"))?;
    // the same configuration with the matcher switched the other way (metamorphic: raw signatures identical)
    let cfg2 = huginn_net::AnalysisConfig { matcher_enabled: !matcher_on, ..cfg.clone() };
    let mut uni2 = huginn_net::HuginnNet::new(Some(db), 1000, Some(cfg2)).map_err(|e| fail!("unified:new2", "{e}"))?;
    let use_matcher = matcher_on && with_db;
    let mut tracker: drive::TcpTracker = ttl_cache::TtlCache::new(1000);
    let mut hs = HttpState::new(1000);
    let _ = TlsState::new(1);
    let pk = frames_of(c);
    let mut multi = 0;
    for (i, p) in pk.iter().enumerate() {
        drive::set_clock(Some(p.at));
        let u = uni.analyze_tcp(&p.frame);
        let u2 = uni2.analyze_tcp(&p.frame);
        // reference analyzers
        let t = if tcp_on { Some(drive::tcp_packet(&p.frame, &mut tracker, use_matcher)) } else { None };
        let h = if http_on { Some(hs.feed(&p.frame, use_matcher)) } else { None };
        let l = if tls_on { Some(tls_stateless(&p.frame)) } else { None };
        // a frame a protocol analyzer cannot decode is accepted by it and yields no fields (its capture loop emits an empty result);
        // an analysis error is a rejection
        let h = h.map(|r| match r {
            Err(e) if e == "NOT-IP" => Ok(huginn_net_http::HttpAnalysisResult { http_request: None, http_response: None }),
            other => other,
        });
        let l = l.map(|r| match r {
            Err(e) if e == "NOT-IP" => Ok(None),
            other => other,
        });
        if matches!(t, Some(TcpOut::NotIp)) {
            st.class("frame-not-decodable-by-the-protocol-analyzers");
            if !drive::unified_tcp_strs(&u).is_empty() {
                return Err(fail!("tcp-fields-for-a-frame-the-tcp-analyzer-cannot-decode", "packet {i}: {:?} | frame {}", drive::unified_tcp_strs(&u), truncate(&hex(&p.frame), 120)));
            }
        }
        let t_ok = !matches!(t, Some(TcpOut::Err(_)) | Some(TcpOut::NotIp));
        let h_ok = !matches!(h, Some(Err(_)));
        let l_ok = !matches!(l, Some(Err(_)));
        let u_tcp = drive::unified_tcp_strs(&u);
        let u_http = drive::unified_http_strs(&u);
        let u_tls = u.tls_client.as_ref().map(drive::tls_out_str);
        // masking
        if !tcp_on && !u_tcp.is_empty() {
            return Err(fail!("tcp-disabled-but-tcp-fields-present", "packet {i}: {:?}", u_tcp));
        }
        if !http_on && !u_http.is_empty() {
            return Err(fail!("http-disabled-but-http-fields-present", "packet {i}: {:?}", u_http));
        }
        if !tls_on && u_tls.is_some() {
            return Err(fail!("tls-disabled-but-tls-field-present", "packet {i}"));
        }
        if !(t_ok && h_ok && l_ok) {
            st.class("packet-rejected-by-an-enabled-analyzer");
            continue;
        }
        let mut fields = 0;
        if let Some(TcpOut::Ok(r)) = &t {
            let e = drive::tcp_result_strs(r);
            if e != u_tcp {
                return Err(fail!("tcp-fields-differ", "packet {i} config {:#06b}\ntcp analyzer {}\nunified      {}", c.config, truncate(&format!("{:?}", e), 700), truncate(&format!("{:?}", u_tcp), 700)));
            }
            fields += !e.is_empty() as u32;
        }
        if let Some(Ok(r)) = &h {
            let e = drive::http_result_strs(r);
            if e != u_http {
                return Err(fail!("http-fields-differ", "packet {i} config {:#06b}\nhttp analyzer {}\nunified       {}", c.config, truncate(&format!("{:?}", e), 700), truncate(&format!("{:?}", u_http), 700)));
            }
            fields += !e.is_empty() as u32;
        }
        if let Some(Ok(r)) = &l {
            if r != &u_tls {
                return Err(fail!("tls-field-differs", "packet {i}\ntls analyzer {}\nunified      {}", truncate(&format!("{:?}", r), 500), truncate(&format!("{:?}", u_tls), 500)));
            }
            fields += r.is_some() as u32;
        }
        if fields >= 2 {
            multi += 1;
        }
        // matcher switch: raw signatures identical, qualities Disabled when off
        let sigs = |r: &huginn_net::output::FingerprintResult| -> Vec<String> {
            let mut v = vec![];
            if let Some(x) = &r.tcp_syn {
                v.push(format!("syn {}", x.sig.matching));
            }
            if let Some(x) = &r.tcp_syn_ack {
                v.push(format!("synack {}", x.sig.matching));
            }
            if let Some(x) = &r.tcp_mtu {
                v.push(format!("mtu {}", x.mtu));
            }
            if let Some(x) = &r.http_request {
                v.push(format!("req {} {:?}", x.sig.matching, x.lang));
            }
            if let Some(x) = &r.http_response {
                v.push(format!("resp {}", x.sig.matching));
            }
            if let Some(x) = &r.tls_client {
                v.push(format!("tls {}", x.sig.ja4.full));
            }
            v
        };
        if sigs(&u) != sigs(&u2) {
            return Err(fail!("matcher-switch-changes-raw-signatures", "packet {i}\n{:?}\n{:?}", sigs(&u), sigs(&u2)));
        }
        let off = if matcher_on { &u2 } else { &u };
        let q_disabled = |q: &huginn_net_db::MatchQualityType| matches!(q, huginn_net_db::MatchQualityType::Disabled);
        let all_disabled = off.tcp_syn.as_ref().map(|x| q_disabled(&x.os_matched.quality)).unwrap_or(true)
            && off.tcp_syn_ack.as_ref().map(|x| q_disabled(&x.os_matched.quality)).unwrap_or(true)
            && off.tcp_mtu.as_ref().map(|x| q_disabled(&x.link.quality)).unwrap_or(true)
            && off.http_request.as_ref().map(|x| q_disabled(&x.browser_matched.quality)).unwrap_or(true)
            && off.http_response.as_ref().map(|x| q_disabled(&x.web_server_matched.quality)).unwrap_or(true);
        if !all_disabled {
            return Err(fail!("matcher-off-but-quality-not-disabled", "packet {i}"));
        }
    }
    drive::set_clock(None);
    if multi > 0 && c.config != 0b1111 {
        st.nontrivial(c);
    }
    Ok(())
}

pub fn junk_frame() -> impl Strategy<Value = Vec<u8>> {
    prop_oneof![
        proptest::collection::vec(any::<u8>(), 0..80),
        // ethernet + truncated IPv4
        proptest::collection::vec(any::<u8>(), 0..30).prop_map(|mut v| { let mut f = vec![2, 0, 0, 0, 0, 2, 2, 0, 0, 0, 0, 1, 8, 0, 0x45]; f.append(&mut v); f }),
        // UDP inside IPv4
        Just({ let mut f = vec![2u8, 0, 0, 0, 0, 2, 2, 0, 0, 0, 0, 1, 8, 0, 0x45, 0, 0, 28, 0, 0, 0x40, 0, 64, 17, 0, 0, 10, 0, 0, 1, 10, 0, 0, 2]; f.extend_from_slice(&[0, 53, 0, 53, 0, 8, 0, 0]); f }),
        // TCP with invalid flag combination (SYN+FIN) and with a fragment offset
        Just({ use crate::gen::frames::*; frame(Link::Ether, &Ip::V4(Ip4::default()), &Tcp { flags: SYN | FIN, ..Tcp::default() }) }),
        Just({ use crate::gen::frames::*; frame(Link::Ether, &Ip::V4(Ip4 { frag_off: 100, ..Ip4::default() }), &Tcp::default()) }),
        Just({ use crate::gen::frames::*; frame(Link::Ether, &Ip::V4(Ip4::default()), &Tcp { flags: PSH, payload: b"GET / HTTP/1.1\r\n\r\n".to_vec(), ..Tcp::default() }) }),
    ]
}

pub fn uni_case() -> impl Strategy<Value = UniCase> {
    (trace::trace_case(4, true), proptest::collection::vec((any::<u16>(), junk_frame()), 0..3), 0u8..16, any::<bool>(), proptest::collection::vec((any::<u16>(), any::<u8>()), 0..3), prop_oneof![3 => Just(vec![]), 2 => proptest::collection::vec((any::<u16>(), prop_oneof![Just(0x01u8), Just(0x04u8), Just(0x05u8), Just(0x28u8), Just(0x08u8), Just(0xc0u8)]), 1..3)]).prop_map(|(trace, junk, config, with_db, reframed, hostile_syn)| UniCase { trace, junk, config, with_db, reframed, hostile_syn })
}

pub fn run(ctx: &Ctx) {
    ctx.assume("arrival times are injected through hook H1 so that uptime fields compare deterministically; the reference analyzers keep their own state and see the same packets");
    ctx.assume("packets on which an enabled analyzer returns an error are outside the statement (counted as a class); a frame a protocol analyzer cannot decode is accepted by it with no fields; TLS ClientHellos are compared on the packet that carries a complete record (stateless TLS analyzer)");
    let n = ctx.tier.pick(40_000, 600_000);
    ctx.run_prop(
        "traces-x-configs",
        "proptest traces of 1..4 interleaved connections (handshakes with timestamps, HTTP/1 and HTTP/2 exchanges, ClientHellos, opaque data; Ethernet / raw IP) + 0..2 malformed frames + (2 traces in 5) connection-opening segments with extra flag bits (SYN|FIN, SYN|RST, SYN|FIN|RST, SYN|PSH|URG, SYN|PSH, SYN|ECE|CWR) + 0..2 copies of trace packets behind 4-byte loopback-style link headers (`02 00 00 00`, `18..`, `1c..`, `1e..`, big-endian, off-by-one) x all 16 combinations of the tcp/http/tls/matcher switches x database present/absent where the constructor allows it; oracle: per packet, huginn_net_tcp / huginn_net_http / stateless huginn_net_tls with their own state and the same database; disabled protocol => fields absent; matcher switch => identical raw signatures, qualities `Disabled`; non-trivial: some packet yields fields in >= 2 protocols and the configuration is not the default",
        n,
        uni_case,
        |c: &UniCase, st: &mut Stats| {
            st.class(&format!("config:{:04b}", c.config));
            st.sample(|| json!({"config": format!("{:04b}", c.config), "connections": c.trace.conns.len(), "packets": frames_of(c).len(), "first_frame": hex(&frames_of(c)[0].frame[..40.min(frames_of(c)[0].frame.len())])}));
            check(c, st)
        },
    );
}

pub fn replay(_ctx: &Ctx, _sub: &str, input: &serde_json::Value) -> Result<(), Fail> {
    let c: UniCase = serde_json::from_value(input["value"].clone()).map_err(|e| fail!("bad-replay", "{e}"))?;
    let mut st = Stats::new();
    check(&c, &mut st)
}
