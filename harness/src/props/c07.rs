//! C07 — connections are analysed in isolation: results do not depend on other traffic.
use crate::drive::{self, HttpState, TcpOut, TlsState};
use crate::engine::{truncate, Ctx, Fail, Stats};
use crate::gen::trace::{self, Packet, Script, TraceCase};
use serde_json::json;

#[derive(Clone, Copy, Debug, PartialEq)]
pub enum Kind {
    Tcp,
    Http,
    Tls,
    Unified,
}

pub enum Analyzer<'a> {
    Tcp(drive::TcpTracker),
    Http(HttpState),
    Tls(TlsState),
    Unified(huginn_net::HuginnNet<'a>),
}

impl<'a> Analyzer<'a> {
    pub fn new(k: Kind, cap: usize) -> Analyzer<'a> {
        match k {
            Kind::Tcp => Analyzer::Tcp(ttl_cache::TtlCache::new(cap)),
            Kind::Http => Analyzer::Http(HttpState::new(cap)),
            Kind::Tls => Analyzer::Tls(TlsState::new(cap)),
            Kind::Unified => Analyzer::Unified(huginn_net::HuginnNet::new(Some(drive::default_db()), cap, None).expect("unified analyzer")),
        }
    }
    /// feed one packet; canonical result strings (empty = nothing reported)
    pub fn feed(&mut self, p: &Packet) -> Vec<String> {
        drive::set_clock(Some(p.at));
        match self {
            Analyzer::Tcp(t) => match drive::tcp_packet(&p.frame, t, true) {
                TcpOut::Ok(r) => drive::tcp_result_strs(&r),
                TcpOut::Err(e) => vec![format!("ERR {e}")],
                TcpOut::NotIp => vec![],
            },
            Analyzer::Http(h) => match h.feed(&p.frame, true) {
                Ok(r) => drive::http_result_strs(&r),
                Err(e) => vec![format!("ERR {e}")],
            },
            Analyzer::Tls(t) => match t.feed(&p.frame) {
                Ok(Some(o)) => vec![drive::tls_out_str(&o)],
                Ok(None) => vec![],
                Err(e) => vec![format!("ERR {e}")],
            },
            Analyzer::Unified(u) => {
                let r = u.analyze_tcp(&p.frame);
                let mut v = drive::unified_tcp_strs(&r);
                v.extend(drive::unified_http_strs(&r));
                if let Some(t) = &r.tls_client {
                    v.push(drive::tls_out_str(t));
                }
                v
            }
        }
    }
}

pub fn check(c: &TraceCase, st: &mut Stats) -> Result<(), Fail> {
    let inter = c.interleaved();
    let per = c.per_conn();
    let cap = 4 * c.conns.len() + 16; // the property's premise: within the configured capacity
    // tight capacity: exactly one table entry per connection of the trace, for the two analyzers whose tables hold one entry per
    // connection at a time (HTTP: direction-less flow key; TLS: one reader per connection, removed when the ClientHello is reported)
    let n = c.conns.len().max(1);
    for (k, cap, tight) in [(Kind::Tcp, cap, false), (Kind::Http, cap, false), (Kind::Tls, cap, false), (Kind::Unified, cap, false), (Kind::Http, n, true), (Kind::Tls, n, true)] {
        // isolated runs
        let mut iso: Vec<Vec<Vec<String>>> = vec![];
        for pk in &per {
            let mut a = Analyzer::new(k, cap);
            iso.push(pk.iter().map(|p| a.feed(p)).collect());
        }
        // interleaved run
        let mut a = Analyzer::new(k, cap);
        let mut pos = vec![0usize; per.len()];
        for (gi, p) in inter.iter().enumerate() {
            let got = a.feed(p);
            let exp = &iso[p.conn][pos[p.conn]];
            if &got != exp {
                let what = if exp.is_empty() { "result-appears-only-with-other-traffic" } else if got.is_empty() { "result-suppressed-by-other-traffic" } else { "result-altered-by-other-traffic" };
                let what = if tight { format!("{what}:capacity-equal-to-the-number-of-connections") } else { what.to_string() };
                return Err(fail!(format!("{:?}:{what}", k), "connection {} packet #{} (trace position {gi})\nalone       {}\ninterleaved {}", p.conn, pos[p.conn], truncate(&format!("{:?}", exp), 600), truncate(&format!("{:?}", got), 600)));
            }
            pos[p.conn] += 1;
        }
    }
    drive::set_clock(None);
    let _ = st;
    Ok(())
}

pub fn nontrivial(c: &TraceCase) -> bool {
    let inter = c.interleaved();
    // some connection has a packet of another connection between two of its own
    let mut interleaved = false;
    for ci in 0..c.conns.len() {
        let idxs: Vec<usize> = inter.iter().enumerate().filter(|(_, p)| p.conn == ci).map(|(i, _)| i).collect();
        if idxs.len() >= 2 && idxs.last().unwrap() - idxs[0] + 1 > idxs.len() {
            interleaved = true;
        }
    }
    let stateful = c.conns.iter().any(|x| x.ts.is_some() || !matches!(x.script, Script::None | Script::Opaque { .. }));
    c.conns.len() >= 2 && interleaved && stateful
}

pub fn run(ctx: &Ctx) {
    ctx.assume("connection capacity of every analyzer is at least 4 x the number of connections (the property's `within the configured capacity`); arrival times come from hook H1 so timestamp-derived fields are identical in both runs");
    let n = ctx.tier.pick(20_000, 400_000);
    ctx.run_prop(
        "interleaved-vs-isolated",
        "proptest sets of 2..8 connections (TCP handshakes with timestamps at different clock rates, ClientHellos in 1..5 segments, HTTP/1.x exchanges, HTTP/2 exchanges whose header blocks use incremental indexing, dynamic-table references and size updates incl. size 0) over a 6-address pool with near-colliding 4-tuples (same addresses / different ports, swapped addresses, same ports / different addresses) x an order-preserving interleaving; oracle: each connection alone on a fresh instance (metamorphic), for the TCP, HTTP, TLS and unified analyzers; non-trivial: >= 2 connections really interleaved and >= 1 stateful",
        n,
        || trace::trace_case(8, true),
        |c: &TraceCase, st: &mut Stats| {
            if nontrivial(c) {
                st.nontrivial(c);
            }
            for x in &c.conns {
                st.class(match x.script {
                    Script::None => "conn:handshake-only",
                    Script::Http1 { .. } => "conn:http1",
                    Script::Http2 { .. } => "conn:http2",
                    Script::Tls { .. } => "conn:tls",
                    Script::Opaque { .. } => "conn:opaque",
                });
            }
            st.sample(|| json!({"connections": c.conns.iter().map(|x| format!("{}:{}->{}:{} {}", x.c_addr % 6, x.c_port, x.s_addr % 6, x.s_port, truncate(&format!("{:?}", x.script), 40))).collect::<Vec<_>>(), "packets": c.interleaved().len()}));
            check(c, st)
        },
    );
    // thorough only: larger connection sets
    if ctx.tier == crate::engine::Tier::Thorough {
        ctx.run_prop(
            "interleaved-vs-isolated-many-connections",
            "as interleaved-vs-isolated with up to 32 connections per trace (thorough tier only); non-trivial as above",
            40_000,
            || trace::trace_case(32, true),
            |c: &TraceCase, st: &mut Stats| {
                if nontrivial(c) {
                    st.nontrivial(c);
                }
                st.sample(|| json!({"connections": c.conns.len(), "packets": c.interleaved().len()}));
                check(c, st)
            },
        );
    }
    // HTTP/2 heavy traces: every connection is HTTP/2 and every request block inserts into and reads from the dynamic table
    let n = ctx.tier.pick(10_000, 200_000);
    ctx.run_prop(
        "h2-dynamic-table-isolation",
        "2..6 interleaved HTTP/2 connections whose request header blocks all insert literal fields into the HPACK dynamic table and reference them again (index >= 62), a third of them starting with `dynamic table size update 0`, and half of them adversarial (the block changes the decoder state and then fails to decode: nonexistent index); oracle as above (HTTP and unified analyzers); non-trivial: >= 2 connections",
        n,
        || {
            use proptest::prelude::*;
            (trace::trace_case(6, true), proptest::collection::vec(any::<u8>(), 6)).prop_map(|(mut t, k)| {
                for (i, c) in t.conns.iter_mut().enumerate() {
                    let (rq, rs) = match &c.script {
                        Script::Http2 { req, resp } => (req.clone(), resp.clone()),
                        _ => {
                            let e = crate::props::c09::Exchange::H2 { req: crate::props::c16::H2Case { request: true, block: crate::gen::h2::Block { size_updates: vec![], fields: vec![] }, framing: crate::gen::h2::HeadersFraming { stream: 1, end_stream: true, pad: None, priority: None, splits: vec![], reserved_bit: false, cont_flags: 0 }, pre: vec![], body: None , hostile_tail: vec![], flag_xor: 0 }, resp: crate::props::c16::H2Case { request: false, block: crate::gen::h2::Block { size_updates: vec![], fields: vec![] }, framing: crate::gen::h2::HeadersFraming { stream: 1, end_stream: true, pad: None, priority: None, splits: vec![], reserved_bit: false, cont_flags: 0 }, pre: vec![crate::props::c16::PreFrame::Settings(vec![(3, 100)])], body: None , hostile_tail: vec![], flag_xor: 0 } };
                            match e {
                                crate::props::c09::Exchange::H2 { req, resp } => (req, resp),
                                _ => unreachable!(),
                            }
                        }
                    };
                    let mut rq = rq;
                    let mut rs = rs;
                    let f = |n: &str, v: String, repr| crate::gen::h2::Field { name: n.into(), value: v.into_bytes(), repr, name_indexed: true, huffman_name: false, huffman_value: false };
                    use crate::gen::h2::Repr::*;
                    let tag = k[i % 6];
                    if !rq.block.fields.iter().any(|x| x.name == ":method") {
                        rq.block.fields = vec![f(":method", "GET".into(), PreferIndexed), f(":path", format!("/c{i}"), LiteralIndexed), f(":scheme", "https".into(), PreferIndexed), f(":authority", format!("host{i}.test"), LiteralIndexed)];
                    }
                    rq.block.fields.retain(|x| x.name != "x-conn");
                    rq.block.fields.push(f("x-conn", format!("value-{i}-{tag}"), LiteralIndexed));
                    rq.block.fields.push(f("x-conn", format!("value-{i}-{tag}"), PreferIndexed)); // dynamic-table reference
                    if tag % 3 == 0 {
                        rq.block.size_updates = vec![0];
                    }
                    // adversarial connection: the block first shrinks the dynamic table to 0 / inserts entries and then
                    // references an index that does not exist, so that decoding fails half-way through
                    if tag % 4 == 1 {
                        rq.block.size_updates = vec![0];
                        rq.hostile_tail = vec![0xfe];
                    } else if tag % 4 == 2 {
                        rq.hostile_tail = vec![0xff, 0xff, 0x03];
                    }
                    if !rs.block.fields.iter().any(|x| x.name == ":status") {
                        rs.block.fields = vec![f(":status", "200".into(), PreferIndexed), f("server", format!("srv{i}"), LiteralIndexed)];
                    }
                    c.script = Script::Http2 { req: rq, resp: rs };
                }
                t
            })
        },
        |c: &TraceCase, st: &mut Stats| {
            if c.conns.len() >= 2 {
                st.nontrivial(c);
            }
            st.sample(|| json!({"connections": c.conns.len(), "packets": c.interleaved().len()}));
            check(c, st)
        },
    );
}

// ------------------------------------------------------------------------------------------------
// the same isolation statement for the parallel analyzers: a worker pool is an analyzer instance too
// ------------------------------------------------------------------------------------------------
pub fn check_pool(c: &crate::props::c10::ParCase, st: &mut Stats) -> Result<(), Fail> {
    use crate::pool::{run_pool, PoolCfg, PoolKind};
    let kind = [PoolKind::Tcp, PoolKind::Http, PoolKind::Tls][(c.kind % 3) as usize];
    let pk = c.trace.interleaved();
    // other traffic that belongs to no connection at all: every second case mixes UDP datagrams, a truncated IPv4 header and a TCP
    // header cut short between the connections' packets (a worker that lets such a packet disturb its batch loses its neighbours)
    let noise: [Vec<u8>; 3] = [
        { let mut f = vec![2u8, 0, 0, 0, 0, 2, 2, 0, 0, 0, 0, 1, 8, 0, 0x45, 0, 0, 28, 0, 0, 0x40, 0, 64, 17, 0, 0, 10, 0, 0, 1, 10, 0, 0, 2]; f.extend_from_slice(&[0, 53, 0, 53, 0, 8, 0, 0]); f },
        vec![2, 0, 0, 0, 0, 2, 2, 0, 0, 0, 0, 1, 8, 0, 0x45, 0, 0, 40, 0, 0],
        { let mut f = vec![2u8, 0, 0, 0, 0, 2, 2, 0, 0, 0, 0, 1, 8, 0, 0x45, 0, 0, 30, 0, 0, 0x40, 0, 64, 6, 0, 0, 10, 0, 0, 1, 10, 0, 0, 2]; f.extend_from_slice(&[0x9c, 0x40, 0, 80, 0, 0, 0, 1, 0, 0]); f },
    ];
    let noisy = c.perturb & 1 == 1;
    let mut frames: Vec<Vec<u8>> = vec![];
    for (i, p) in pk.iter().enumerate() {
        if noisy && (c.perturb >> (1 + i % 60)) & 1 == 1 {
            // varying the IP id makes the copies different frames (the fallback hash of a flow-less frame spreads them over the workers)
            let mut n = noise[i % 3].clone();
            n[18] = (i >> 8) as u8;
            n[19] = i as u8;
            frames.push(n);
        }
        frames.push(p.frame.clone());
    }
    if noisy {
        st.class("with-noise-frames");
    }
    let mut clock: std::collections::HashMap<u32, u64> = std::collections::HashMap::new();
    for p in &pk {
        if let Some(v) = p.tsval {
            clock.insert(v, p.at);
        }
    }
    let workers = 2 + (c.workers % 9) as usize;
    // the configured capacity holds every connection of the trace even if all of them reach one worker
    let n_conn = c.trace.conns.len().max(1);
    let max_conn = match kind { PoolKind::Http => n_conn, PoolKind::Tls => 2 * n_conn, PoolKind::Tcp => 4 * n_conn };
    let cfg = PoolCfg { workers, queue: frames.len() + 16, batch: 1 + (c.batch % 64) as usize, timeout_ms: 1 + (c.timeout_ms % 20) as u64, dispatchers: 1, perturb: Some(c.perturb), max_sleep_us: 100, max_conn };
    let run = run_pool(kind, &frames, &cfg, None, Some(clock)).map_err(|e| fail!("pool:new", "{e}"))?;
    if let Some(p) = &run.worker_panic {
        return Err(Fail::new(format!("{:?}-pool:worker-{}", kind, crate::engine::panic_key(p)), format!("a worker thread panicked: {p}")));
    }
    if run.drain_timeout || (kind != PoolKind::Tls && run.queued.iter().any(|q| !*q)) {
        st.discards += 1;
        return Ok(());
    }
    let mut expected: Vec<String> = c.trace.per_conn().iter().flat_map(|pk| crate::props::c10::sequential(kind, pk)).map(|(_, r)| r).collect();
    let mut got: Vec<String> = run.results.iter().map(|(_, r)| r.clone()).collect();
    expected.sort();
    got.sort();
    if expected.len() >= 2 && c.trace.conns.len() >= 2 {
        st.nontrivial(c);
    }
    st.class(&format!("{:?}-pool", kind));
    if expected != got {
        let missing = expected.iter().find(|x| !got.contains(x));
        let extra = got.iter().find(|x| !expected.contains(x));
        let what = if missing.is_some() && extra.is_none() { "result-suppressed-by-other-traffic" } else if missing.is_none() { "result-appears-only-with-other-traffic" } else { "result-altered-by-other-traffic" };
        return Err(fail!(format!("{:?}-pool:{what}", kind), "workers {workers} capacity {max_conn} connections {n_conn}: alone {} results, in the pool {}\nmissing {}\nextra   {}", expected.len(), got.len(), truncate(&format!("{:?}", missing), 500), truncate(&format!("{:?}", extra), 500)));
    }
    Ok(())
}

pub fn run_pool_isolation(ctx: &Ctx) {
    ctx.shrink_iters.store(25, std::sync::atomic::Ordering::Relaxed);
    let n = ctx.tier.pick(3_000, 50_000);
    ctx.run_prop(
        "pool-vs-isolated",
        "the trace generator of C10 (1..8 interleaved connections) through the TCP / HTTP / TLS worker pools (2..10 workers, seeded schedule perturbation) whose configured capacity holds exactly the connections of the trace (HTTP: one entry per connection; TCP / TLS: four); oracle: the multiset of results equals the union of the results each connection yields alone on a fresh sequential analyzer; non-trivial: >= 2 connections and >= 2 results",
        n,
        crate::props::c10::par_case,
        |c: &crate::props::c10::ParCase, st: &mut Stats| {
            st.sample(|| json!({"kind": c.kind % 3, "workers": 2 + c.workers % 9, "connections": c.trace.conns.len()}));
            check_pool(c, st)
        },
    );
    ctx.shrink_iters.store(1200, std::sync::atomic::Ordering::Relaxed);
}

// ------------------------------------------------------------------------------------------------
// the capture loops (analyze_pcap) against the per-packet path: a packet the analyzer refuses must not end the analysis
// ------------------------------------------------------------------------------------------------
#[derive(Clone, Debug, serde::Serialize, serde::Deserialize, Hash)]
pub struct LoopCase {
    pub trace: TraceCase,
    /// hostile copies of trace packets: (packet selector, kind: flag byte rewritten / TCP header truncated)
    pub hostile: Vec<(u16, u8)>,
}

pub fn loop_frames(c: &LoopCase) -> Vec<Packet> {
    let mut pk = c.trace.interleaved();
    let off = if c.trace.link == crate::gen::frames::Link::Ether { 14 } else { 0 };
    let n0 = pk.len();
    for (k, (sel, kind)) in c.hostile.iter().enumerate() {
        if n0 == 0 {
            break;
        }
        let i = (crate::engine::idx(*sel, n0) + k).min(pk.len() - 1);
        let mut f = pk[i].frame.clone();
        if f.len() <= off + 20 {
            continue;
        }
        let l4 = if f[off] >> 4 == 4 { off + ((f[off] & 0x0f) as usize * 4).max(20) } else { off + 40 };
        if f.len() < l4 + 20 {
            continue;
        }
        match kind % 6 {
            0 => f[l4 + 13] = 0x03, // SYN+FIN
            1 => f[l4 + 13] = 0x06, // SYN+RST
            2 => f[l4 + 13] = 0x05, // FIN+RST
            3 => f[l4 + 13] = 0x00, // no flags
            4 => f.truncate(l4 + 10), // TCP header cut short
            _ => f[l4 + 12] = 0x10,  // data offset below the minimum
        }
        let copy = Packet { conn: usize::MAX, from_client: pk[i].from_client, frame: f, at: pk[i].at, tsval: None, payload_len: 0 };
        pk.insert(i + 1, copy);
    }
    pk
}

pub fn check_pcap_loop(c: &LoopCase, st: &mut Stats) -> Result<(), Fail> {
    let pk = loop_frames(c);
    if c.trace.link == crate::gen::frames::Link::Null {
        return Ok(());
    }
    drive::set_clock_table(&pk);
    let frames: Vec<&[u8]> = pk.iter().map(|p| p.frame.as_slice()).collect();
    let hostile = pk.iter().filter(|p| p.conn == usize::MAX).count();
    if hostile > 0 && pk.iter().position(|p| p.conn == usize::MAX).map(|i| i + 1 < pk.len()).unwrap_or(false) {
        st.nontrivial(c);
    }
    for k in [Kind::Tcp, Kind::Http, Kind::Tls, Kind::Unified] {
        // per-packet path: errors are per-packet events, every other packet is analysed
        let mut a = Analyzer::new(k, 1000);
        let expected: Vec<String> = pk.iter().flat_map(|p| a.feed(p)).filter(|s| !s.starts_with("ERR")).collect();
        drive::set_clock(None);
        let k15 = match k {
            Kind::Tcp => crate::props::c15::Kind::Tcp,
            Kind::Http => crate::props::c15::Kind::Http,
            Kind::Tls => crate::props::c15::Kind::Tls,
            Kind::Unified => crate::props::c15::Kind::Unified,
        };
        let got = match crate::props::c15::run_pcap(k15, &frames, None) {
            Ok(v) => v,
            Err(e) => {
                drive::clear_clock_table();
                return Err(fail!(format!("{:?}:capture-loop-ended-by-a-packet", k), "analyze_pcap returned `{e}`; the per-packet path yields {} results for the same capture ({hostile} hostile packets)", expected.len()));
            }
        };
        if got != expected {
            drive::clear_clock_table();
            let missing = expected.iter().find(|x| !got.contains(x));
            return Err(fail!(format!("{:?}:capture-loop-differs-from-per-packet-path", k), "capture loop {} results, per-packet path {}\nfirst missing {}", got.len(), expected.len(), truncate(&format!("{:?}", missing), 500)));
        }
    }
    drive::clear_clock_table();
    Ok(())
}

pub fn run_pcap_loop(ctx: &Ctx) {
    use proptest::prelude::*;
    let n = ctx.tier.pick(6_000, 120_000);
    ctx.run_prop(
        "capture-loop-vs-per-packet-path",
        "traces of 1..6 interleaved connections plus 0..4 hostile copies of their packets (SYN+FIN, SYN+RST, FIN+RST, no flags, TCP header cut short, data offset below 5) written to a pcap file and analysed by analyze_pcap of the TCP, HTTP, TLS and unified analyzers; oracle: the same frames through the per-packet path, where a refused packet is a per-packet event - the capture loop must deliver the same results and must not end early; non-trivial: a hostile packet with traffic behind it",
        n,
        || (trace::trace_case(6, true), proptest::collection::vec((any::<u16>(), any::<u8>()), 0..5)).prop_map(|(trace, hostile)| LoopCase { trace, hostile }),
        |c: &LoopCase, st: &mut Stats| {
            st.sample(|| json!({"connections": c.trace.conns.len(), "hostile": c.hostile.iter().map(|h| h.1 % 6).collect::<Vec<_>>()}));
            check_pcap_loop(c, st)
        },
    );
}

pub fn replay(_ctx: &Ctx, _sub: &str, input: &serde_json::Value) -> Result<(), Fail> {
    if _sub == "capture-loop-vs-per-packet-path" {
        let c: LoopCase = serde_json::from_value(input["value"].clone()).map_err(|e| fail!("bad-replay", "{e}"))?;
        let mut st = Stats::new();
        return check_pcap_loop(&c, &mut st);
    }
    if _sub == "pool-vs-isolated" {
        let c: crate::props::c10::ParCase = serde_json::from_value(input["value"].clone()).map_err(|e| fail!("bad-replay", "{e}"))?;
        let mut st = Stats::new();
        return check_pool(&c, &mut st);
    }
    let c: TraceCase = serde_json::from_value(input["value"].clone()).map_err(|e| fail!("bad-replay", "{e}"))?;
    let mut st = Stats::new();
    check(&c, &mut st)
}
