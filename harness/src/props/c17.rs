//! C17 — Akamai HTTP/2 fingerprints follow the published format, incrementally too.
use crate::engine::{hex, truncate, Ctx, Fail, Stats};
use crate::gen::h2::{self, Block, DynTable, HeadersFraming, PrioritySpec};
use crate::props::c08::{cut_positions, split};
use huginn_net_http::akamai_extractor::extract_akamai_fingerprint_from_bytes;
use huginn_net_http::Http2FingerprintExtractor;
use proptest::prelude::*;
use serde::{Deserialize, Serialize};
use serde_json::json;
use sha2::{Digest, Sha256};

#[derive(Clone, Debug, Serialize, Deserialize, Hash)]
pub enum AFrame {
    /// params, ACK flag, trailing partial-parameter bytes
    Settings(Vec<(u16, u32)>, bool, Vec<u8>),
    /// stream, increment (31 bit), reserved bit
    WindowUpdate(u32, u32, bool),
    Priority(u32, PrioritySpec),
    Headers(Block, HeadersFraming),
    Ping,
    Data(u32, Vec<u8>),
    Unknown(u8, u32, Vec<u8>),
    RstStream(u32),
}

#[derive(Clone, Debug, Serialize, Deserialize, Hash)]
pub struct ACase {
    pub preface: bool,
    pub frames: Vec<AFrame>,
    pub cuts: Vec<u16>,
}

impl AFrame {
    /// wire frames (a HEADERS item may expand to HEADERS + CONTINUATIONs)
    pub fn wire(&self) -> Vec<Vec<u8>> {
        match self {
            AFrame::Settings(p, ack, tail) => {
                let mut payload = vec![];
                for (id, v) in p {
                    payload.extend_from_slice(&id.to_be_bytes());
                    payload.extend_from_slice(&v.to_be_bytes());
                }
                payload.extend_from_slice(tail);
                vec![h2::frame(h2::T_SETTINGS, if *ack { 1 } else { 0 }, 0, &payload)]
            }
            AFrame::WindowUpdate(s, i, r) => vec![h2::window_update_frame(*s, *i, *r)],
            AFrame::Priority(s, p) => vec![h2::priority_frame(*s, p)],
            AFrame::Headers(b, f) => {
                let mut t = DynTable::new();
                let blk = h2::encode_block(b, &mut t);
                h2::headers_frames(&blk, f)
            }
            AFrame::Ping => vec![h2::frame(h2::T_PING, 0, 0, &[1, 2, 3, 4, 5, 6, 7, 8])],
            AFrame::Data(s, d) => vec![h2::frame(h2::T_DATA, 0, *s, d)],
            AFrame::Unknown(t, s, d) => vec![h2::frame(*t, 0, *s, d)],
            AFrame::RstStream(s) => vec![h2::frame(h2::T_RST, 0, *s, &[0, 0, 0, 8])],
        }
    }
}

impl ACase {
    /// (stream bytes, end offset of every *item* i.e. after all of its wire frames)
    pub fn bytes(&self) -> (Vec<u8>, Vec<usize>) {
        let mut out = vec![];
        if self.preface {
            out.extend_from_slice(h2::PREFACE);
        }
        let mut ends = vec![];
        for f in &self.frames {
            for w in f.wire() {
                out.extend(w);
            }
            ends.push(out.len());
        }
        (out, ends)
    }
}

/// reference fingerprint of the first `n_items` items (frames completely contained), per the published format
pub fn reference(frames: &[AFrame]) -> Option<String> {
    let first_settings = frames.iter().find_map(|f| if let AFrame::Settings(p, _, _) = f { Some(p) } else { None })?;
    if first_settings.is_empty() {
        return None;
    }
    let s = first_settings.iter().map(|(id, v)| format!("{}:{}", id, v)).collect::<Vec<_>>().join(";");
    let wu = frames.iter().find_map(|f| if let AFrame::WindowUpdate(0, inc, _) = f { Some(*inc & 0x7fff_ffff) } else { None }).unwrap_or(0);
    let wu = if wu == 0 { "00".to_string() } else { wu.to_string() };
    let pr: Vec<String> = frames
        .iter()
        .filter_map(|f| if let AFrame::Priority(st, p) = f { Some(format!("{}:{}:{}:{}", st, p.exclusive as u8, p.dep & 0x7fff_ffff, p.weight as u16 + 1)) } else { None })
        .collect();
    let pr = if pr.is_empty() { "0".to_string() } else { pr.join(",") };
    let ps = frames
        .iter()
        .find_map(|f| match f {
            AFrame::Headers(b, fr) if fr.stream > 0 => Some(
                b.fields
                    .iter()
                    .filter(|x| x.name.starts_with(':'))
                    .map(|x| match x.name.as_str() {
                        ":method" => "m".to_string(),
                        ":path" => "p".to_string(),
                        ":authority" => "a".to_string(),
                        ":scheme" => "s".to_string(),
                        ":status" => "st".to_string(),
                        o => format!("?{o}"),
                    })
                    .collect::<Vec<_>>()
                    .join(","),
            ),
            _ => None,
        })
        .unwrap_or_default();
    Some(format!("{s}|{wu}|{pr}|{ps}"))
}

pub fn hash32(fp: &str) -> String {
    let d = Sha256::digest(fp.as_bytes());
    let h: String = d.iter().map(|b| format!("{:02x}", b)).collect();
    h[..32].to_string()
}

fn first_settings_empty(frames: &[AFrame]) -> bool {
    matches!(frames.iter().find_map(|f| if let AFrame::Settings(p, _, _) = f { Some(p.is_empty()) } else { None }), Some(true))
}

pub fn check(c: &ACase, st: &mut Stats) -> Result<(), Fail> {
    let (bytes, ends) = c.bytes();
    // ---------- one shot
    let exp = reference(&c.frames);
    let got = extract_akamai_fingerprint_from_bytes(&bytes);
    let zero_first = first_settings_empty(&c.frames);
    if zero_first {
        st.class("first-SETTINGS-empty (only `nothing invented` asserted)");
        if let Some(g) = &got {
            let ok = c.frames.iter().any(|f| matches!(f, AFrame::Settings(p, _, _) if !p.is_empty() && g.fingerprint.starts_with(&p.iter().map(|(i, v)| format!("{i}:{v}")).collect::<Vec<_>>().join(";"))));
            if !ok {
                return Err(fail!("oneshot:invented-settings", "{}", g.fingerprint));
            }
        }
    } else {
        match (&exp, &got) {
            (None, None) => {}
            (Some(e), Some(g)) => {
                if &g.fingerprint != e {
                    let part = ["settings", "window-update", "priority", "pseudo-headers"];
                    let ge: Vec<&str> = g.fingerprint.split('|').collect();
                    let ee: Vec<&str> = e.split('|').collect();
                    let which = (0..4).find(|i| ge.get(*i) != ee.get(*i)).map(|i| part[i]).unwrap_or("format");
                    return Err(fail!(format!("oneshot:{which}"), "expected {e:?} got {:?} | bytes {}", g.fingerprint, truncate(&hex(&bytes), 400)));
                }
                if g.hash != hash32(e) {
                    return Err(fail!("oneshot:hash", "expected {} got {}", hash32(e), g.hash));
                }
            }
            (None, Some(g)) => return Err(fail!("oneshot:fingerprint-invented", "{}", g.fingerprint)),
            (Some(e), None) => return Err(fail!("oneshot:no-fingerprint", "expected {e:?} | bytes {}", truncate(&hex(&bytes), 400))),
        }
    }
    // ---------- incremental
    let cuts = cut_positions(&c.cuts, bytes.len());
    let mut ex = Http2FingerprintExtractor::new();
    let mut delivered = 0usize;
    let mut reported: Option<(usize, String, String)> = None;
    for (i, chunk) in split(&bytes, &cuts).iter().enumerate() {
        delivered += chunk.len();
        match ex.add_bytes(chunk) {
            Ok(Some(f)) => {
                if reported.is_some() {
                    return Err(fail!("incremental:reported-twice", "chunk {i}"));
                }
                reported = Some((delivered, f.fingerprint.clone(), f.hash.clone()));
                match ex.get_fingerprint() {
                    Some(g) if g.fingerprint == f.fingerprint => {}
                    other => return Err(fail!("incremental:get_fingerprint-disagrees", "{:?}", other.map(|g| g.fingerprint.clone()))),
                }
            }
            Ok(None) => {}
            Err(e) => return Err(fail!("incremental:error", "chunk {i}: {e}")),
        }
        // the accessors tell the same story as the return values, after every chunk
        let have = ex.get_fingerprint().map(|g| (g.fingerprint.clone(), g.hash.clone()));
        let told = reported.as_ref().map(|(_, f, h)| (f.clone(), h.clone()));
        if ex.fingerprint_extracted() != have.is_some() || have != told {
            return Err(fail!("incremental:accessors-disagree-with-the-reported-result", "after chunk {i}: add_bytes has reported {:?}, fingerprint_extracted {}, get_fingerprint {:?}", told, ex.fingerprint_extracted(), have));
        }
    }
    if zero_first {
        return Ok(());
    }
    // the chunk that completed the first SETTINGS frame
    let first_settings_idx = c.frames.iter().position(|f| matches!(f, AFrame::Settings(..)));
    match (first_settings_idx, &exp) {
        (Some(si), Some(_)) => {
            let settings_end = ends[si];
            // end of the chunk that contains byte settings_end-1
            let mut chunk_end = bytes.len();
            for c2 in &cuts {
                if *c2 >= settings_end {
                    chunk_end = *c2;
                    break;
                }
            }
            // items completely contained in bytes[..chunk_end]  (a HEADERS item counts only when all its frames arrived)
            let n_items = ends.iter().filter(|e| **e <= chunk_end).count();
            let exp_inc = reference(&c.frames[..n_items]).expect("first settings included");
            match &reported {
                Some((at, fp, h)) => {
                    if *at != chunk_end {
                        return Err(fail!("incremental:reported-on-wrong-chunk", "SETTINGS complete at byte {settings_end}, its chunk ends at {chunk_end}, reported after {at} bytes; cuts {:?}", cuts));
                    }
                    if fp != &exp_inc {
                        return Err(fail!("incremental:differs-from-oneshot-of-received-bytes", "expected {exp_inc:?} got {fp:?}; cuts {:?} | bytes {}", cuts, truncate(&hex(&bytes), 400)));
                    }
                    if h != &hash32(&exp_inc) {
                        return Err(fail!("incremental:hash", "{h}"));
                    }
                }
                None => return Err(fail!("incremental:never-reported", "expected {exp_inc:?}; cuts {:?}", cuts)),
            }
        }
        _ => {
            if let Some((_, fp, _)) = &reported {
                return Err(fail!("incremental:fingerprint-invented", "{fp}"));
            }
        }
    }
    Ok(())
}

pub fn a_frame() -> impl Strategy<Value = AFrame> {
    prop_oneof![
        4 => (proptest::collection::vec((prop_oneof![3 => 1u16..7, 1 => Just(9u16), 1 => any::<u16>()], prop_oneof![Just(0u32), Just(1u32), Just(65535u32), Just(6291456u32), any::<u32>()]), 0..12), proptest::bool::weighted(0.1), proptest::collection::vec(any::<u8>(), 0..6).prop_map(|v| if v.len() == 5 { v } else { vec![] }))
            .prop_map(|(p, ack, tail)| AFrame::Settings(p, ack, tail)),
        3 => (prop_oneof![3 => Just(0u32), 1 => 1u32..9], prop_oneof![Just(0u32), Just(15663105u32), 1u32..0x7fff_ffff], proptest::bool::weighted(0.2)).prop_map(|(s, i, r)| AFrame::WindowUpdate(s, i, r)),
        3 => ((0u32..20), h2::priority_spec()).prop_map(|(s, p)| AFrame::Priority(s, p)),
        3 => (h2::request_block(), h2::headers_framing(), proptest::bool::weighted(0.1), proptest::option::weighted(0.25, any::<u8>())).prop_map(|(mut b, mut f, zero, mix)| {
            if zero {
                f.stream = 0;
            }
            // a quarter of the blocks carry a regular field between their pseudo-headers (the fingerprint lists the pseudo-headers
            // in the order in which they appear, wherever they stand)
            if let Some(sel) = mix {
                let np = b.fields.iter().filter(|x| x.name.starts_with(':')).count();
                if np >= 2 {
                    if let Some(pos) = b.fields.iter().position(|x| !x.name.starts_with(':')) {
                        let fld = b.fields.remove(pos);
                        b.fields.insert(1 + sel as usize % (np - 1), fld);
                    }
                }
            }
            AFrame::Headers(b, f)
        }),
        1 => Just(AFrame::Ping),
        1 => ((1u32..9), proptest::collection::vec(any::<u8>(), 0..40)).prop_map(|(s, d)| AFrame::Data(s, d)),
        1 => (10u8..=255, 0u32..4, proptest::collection::vec(any::<u8>(), 0..20)).prop_map(|(t, s, d)| AFrame::Unknown(t, s, d)),
        1 => (1u32..9).prop_map(AFrame::RstStream),
        // frames at and next to the largest legal size (SETTINGS_MAX_FRAME_SIZE default 2^14)
        1 => (any::<bool>(), 1u32..9, prop_oneof![Just(16384usize), Just(16383usize), Just(16385usize)], 10u8..=255).prop_map(|(data, s, n, t)| if data && n <= 16384 { AFrame::Data(s, vec![0xAB; n]) } else { AFrame::Unknown(t, s, vec![0xCD; n.min(16384)]) }),
    ]
}

pub fn a_case() -> impl Strategy<Value = ACase> {
    (any::<bool>(), proptest::collection::vec(a_frame(), 0..9), proptest::collection::vec(prop_oneof![2 => any::<u16>(), 1 => 0u16..3000], 0..8)).prop_map(|(preface, frames, cuts)| ACase { preface, frames, cuts })
}

pub fn nontrivial(c: &ACase, cuts: &[usize]) -> bool {
    let si = c.frames.iter().position(|f| matches!(f, AFrame::Settings(..)));
    (c.frames.len() >= 3 && matches!(si, Some(i) if i > 0 || c.frames.iter().skip(1).any(|f| !matches!(f, AFrame::Settings(..))))) || {
        // a cut inside a frame header
        let (_, ends) = c.bytes();
        let starts: Vec<usize> = std::iter::once(if c.preface { 24 } else { 0 }).chain(ends.iter().copied()).collect();
        cuts.iter().any(|cut| starts.iter().any(|s| *cut > *s && *cut < *s + 9))
    }
}

pub fn run(ctx: &Ctx) {
    ctx.assume("SETTINGS frames are sent on stream 0; frames are at most 16 KiB; a first SETTINGS frame without parameters only forbids invented fingerprints");
    let n = ctx.tier.pick(250_000, 4_000_000);
    ctx.run_prop(
        "frame-sequences-x-partitions",
        "proptest frame sequences (optional preface; SETTINGS with 0..11 parameters incl. unknown/duplicate ids, ACK flag, trailing partial parameter; WINDOW_UPDATE on stream 0 / other with reserved bit or increment 0; DATA / unknown frames of 16383 and 16384 bytes; PRIORITY on any stream, exclusive bit, weight 0..255; HEADERS with any pseudo-header order, padding, PRIORITY flag, CONTINUATION, stream 0 / != 0; PING, DATA, RST_STREAM, unknown types; any order) x 0..8 generated chunk boundaries; oracle: reference string S|WU|P|PS + sha256[..32] of the generated frames, one-shot and incremental (exactly one report, on the chunk completing the first SETTINGS frame, equal to the reference of the frames completely received by then); non-trivial: >= 3 frames with a non-SETTINGS frame before or between, or a cut inside a frame header",
        n,
        a_case,
        |c: &ACase, st: &mut Stats| {
            let (bytes, _) = c.bytes();
            let cuts = cut_positions(&c.cuts, bytes.len());
            if nontrivial(c, &cuts) {
                st.nontrivial(c);
            }
            st.sample(|| json!({"frames": c.frames.iter().map(|f| format!("{:?}", f).chars().take(80).collect::<String>()).collect::<Vec<_>>(), "cuts": cuts, "reference": reference(&c.frames)}));
            check(c, st)
        },
    );
    // every cut position for short sequences
    let n = ctx.tier.pick(6_000, 100_000);
    ctx.run_prop(
        "every-cut",
        "generated sequences of at most 300 bytes x EVERY single cut position (two chunks) and every byte-at-a-time delivery; non-trivial: every case",
        n,
        a_case,
        |c: &ACase, st: &mut Stats| {
            let (bytes, _) = c.bytes();
            if bytes.len() > 300 || bytes.len() < 2 {
                st.discards += 1;
                return Ok(());
            }
            st.sample(|| json!({"len": bytes.len(), "reference": reference(&c.frames)}));
            for cut in 1..bytes.len() {
                let sel = ((((cut - 1) as u64) << 16) / (bytes.len() as u64 - 1) + 1).min(65535) as u16;
                let mut c2 = c.clone();
                c2.cuts = vec![sel];
                if cut_positions(&c2.cuts, bytes.len()) != vec![cut] {
                    continue;
                }
                st.evals += 1;
                st.nontrivial(&(c, cut));
                check(&c2, st)?;
            }
            Ok(())
        },
    );
}

/// thorough tier: coverage-guided differential campaign
pub fn fuzz(ctx: &Ctx) {
    if ctx.tier == crate::engine::Tier::Thorough {
        let mut s1 = vec![5u8, 60, 130];
        s1.extend_from_slice(h2::PREFACE);
        s1.extend(h2::window_update_frame(0, 15663105, false));
        s1.extend(h2::settings_frame(&[(1, 65536), (3, 1000), (4, 6291456)], false));
        s1.extend(h2::priority_frame(3, &PrioritySpec { exclusive: false, dep: 0, weight: 200 }));
        s1.extend(h2::frame(h2::T_HEADERS, 0x05, 1, &[0x82, 0x84, 0x87, 0x41, 0x01, 0x61]));
        ctx.fuzz_campaign("akamai_chunks", "seeded", &[s1], 3_000_000, 420);
        ctx.fuzz_campaign("akamai_chunks", "empty", &[], 1_500_000, 300);
    }
}

pub fn replay(_ctx: &Ctx, _sub: &str, input: &serde_json::Value) -> Result<(), Fail> {
    let c: ACase = serde_json::from_value(input["value"].clone()).map_err(|e| fail!("bad-replay", "{e}"))?;
    let mut st = Stats::new();
    check(&c, &mut st)
}

/// libFuzzer differential target: first 3 bytes choose the chunking, the rest is the byte stream.
/// Oracle (no reference model needed): the incremental report equals the one-shot fingerprint of the bytes received
/// up to and including the reporting chunk, at most one report, and if nothing was reported the one-shot
/// extraction of the whole stream yields nothing either.
pub fn fuzz_chunks(data: &[u8]) {
    if data.len() < 4 {
        return;
    }
    let raw: Vec<u16> = data[..3].iter().map(|b| (*b as u16) * 257).collect();
    let stream = &data[3..];
    let cuts = cut_positions(&raw, stream.len());
    let mut ex = Http2FingerprintExtractor::new();
    let mut delivered = 0;
    let mut reported = false;
    for chunk in split(stream, &cuts) {
        delivered += chunk.len();
        match ex.add_bytes(&chunk) {
            Ok(Some(f)) => {
                assert!(!reported, "reported twice");
                reported = true;
                let one = extract_akamai_fingerprint_from_bytes(&stream[..delivered]);
                assert_eq!(one.as_ref().map(|o| o.fingerprint.clone()), Some(f.fingerprint.clone()), "incremental differs from one-shot of the received bytes");
                assert_eq!(one.map(|o| o.hash), Some(f.hash));
            }
            Ok(None) => {}
            Err(_) => return,
        }
    }
    if !reported {
        assert!(extract_akamai_fingerprint_from_bytes(stream).is_none(), "one-shot finds a fingerprint the incremental extractor never reported");
    }
}
