//! C11 — memory per connection and work per packet stay bounded for any traffic.
use crate::alloc;
use crate::drive::{self, HttpState, TcpOut, TlsState};
use crate::engine::{Ctx, Fail, SplitMix};
use crate::gen::frames::{self as fr, frame, Ip, Ip4, Link, Tcp};
use crate::gen::{http1, tls};
use crate::model::tcp::{encode_opts, OptItem};
use serde_json::json;

pub const K_HTTP: &str = "K-C11-http";

#[derive(Clone, Copy, Debug, PartialEq, Eq, Hash)]
pub enum Shape {
    /// SYN, then an HTTP-looking request head that never completes (endless header bytes)
    HttpHeadNeverCompletes,
    /// SYN, then binary data
    SynThenBinary,
    /// SYN, complete request, then an endless body
    RequestThenEndlessBody,
    /// SYN, complete request and response, then endless response data
    ExchangeThenEndlessResponse,
    /// endless response-direction data, request never seen
    EndlessServerData,
    /// complete ClientHello, then TLS application data
    HelloThenAppData,
    /// a handshake record that is not a ClientHello, then application data
    NonHelloHandshakeThenAppData,
    /// handshake record header declaring 65535 bytes that never completes
    HugeDeclaredRecord,
    /// endless stream of small non-ClientHello handshake records
    SmallNonHelloRecords,
    /// every segment carries many small well-formed non-ClientHello handshake records
    ManyRecordsPerSegment,
    /// random bytes without SYN
    RandomNoSyn,
    /// timestamped ACK segments only (uptime tracker)
    TimestampedAcks,
    /// SYN, upgrade request, `101 Switching Protocols`, then endless server data (a WebSocket-like connection)
    UpgradeThenEndlessData,
    /// SYN, request with `Expect: 100-continue`, `100 Continue`, then endless server data
    ContinueThenEndlessData,
}
pub const SHAPES: [Shape; 14] = [
    Shape::UpgradeThenEndlessData,
    Shape::ContinueThenEndlessData,
    Shape::ManyRecordsPerSegment,
    Shape::HttpHeadNeverCompletes,
    Shape::SynThenBinary,
    Shape::RequestThenEndlessBody,
    Shape::ExchangeThenEndlessResponse,
    Shape::EndlessServerData,
    Shape::HelloThenAppData,
    Shape::NonHelloHandshakeThenAppData,
    Shape::HugeDeclaredRecord,
    Shape::SmallNonHelloRecords,
    Shape::RandomNoSyn,
    Shape::TimestampedAcks,
];

/// the i-th frame of connection `conn` for a shape (generated on the fly, so that 10^6-segment histories fit)
pub struct ShapeGen {
    shape: Shape,
    conn: u16,
    seg: usize,
    cseq: u32,
    sseq: u32,
    rng: SplitMix,
    i: u64,
    /// both endpoints on one address (a host talking to itself; the ports tell the directions apart)
    pub same_host: bool,
}

impl ShapeGen {
    pub fn new(shape: Shape, conn: u16, seg: usize, seed: u64) -> Self {
        ShapeGen { shape, conn, seg, cseq: 1000, sseq: 9000, rng: SplitMix(seed ^ conn as u64), i: 0, same_host: false }
    }
    fn pkt(&mut self, from_client: bool, flags: u8, payload: Vec<u8>) -> Vec<u8> {
        let c = [10, 1, (self.conn >> 8) as u8, self.conn as u8];
        let s = if self.same_host { c } else { [10, 2, 0, 1] };
        let (ip, sp, dp, seq) = if from_client { (Ip4 { src: c, dst: s, ..Ip4::default() }, 40000u16, 443u16, &mut self.cseq) } else { (Ip4 { src: s, dst: c, ..Ip4::default() }, 443u16, 40000u16, &mut self.sseq) };
        let opts = encode_opts(&[OptItem::Nop, OptItem::Nop, OptItem::Ts(1_000_000 + self.i as u32 * 3, 1)]);
        let tcp = Tcp { sport: sp, dport: dp, seq: *seq, ack: 1, flags, options: opts, payload: payload.clone(), ..Tcp::default() };
        *seq = seq.wrapping_add(payload.len() as u32 + if flags & fr::SYN != 0 { 1 } else { 0 });
        frame(Link::Ether, &Ip::V4(ip), &tcp)
    }
    /// the server's SYN+ACK (the shapes themselves go without one; a pool worker that sees only the server's side of a connection
    /// opens its flow on this segment)
    pub fn syn_ack(&mut self) -> Vec<u8> {
        self.pkt(false, fr::SYN | fr::ACK, vec![])
    }
    fn filler(&mut self, first: u8) -> Vec<u8> {
        let mut v = self.rng.bytes(self.seg);
        if !v.is_empty() {
            v[0] = first;
        }
        v
    }
    fn text(&mut self) -> Vec<u8> {
        (0..self.seg).map(|k| b"abcdefghijklmnopqrstuvwxyz0123456789-"[(k + self.i as usize) % 37]).collect()
    }
    pub fn next(&mut self) -> Vec<u8> {
        let i = self.i;
        self.i += 1;
        let req = http1::Request { method: "GET".into(), target: "/".into(), v11: true, headers: vec![http1::Hdr { name: "Host".into(), value: "example.com".into(), ows_before: " ".into(), ows_after: String::new() }, http1::Hdr { name: "User-Agent".into(), value: "curl/8".into(), ows_before: " ".into(), ows_after: String::new() }] };
        match (self.shape, i) {
            (Shape::RandomNoSyn, _) => {
                let p = self.filler(0x99);
                self.pkt(true, fr::ACK | fr::PSH, p)
            }
            (Shape::TimestampedAcks, _) => self.pkt(i % 2 == 0, fr::ACK, vec![]),
            (Shape::EndlessServerData, 0) => self.pkt(true, fr::SYN, vec![]),
            (Shape::EndlessServerData, _) => {
                let p = if i == 1 { b"HTTP/1.1 200 OK\r\nX-Long: ".to_vec() } else { self.text() };
                self.pkt(false, fr::ACK | fr::PSH, p)
            }
            (_, 0) => self.pkt(true, fr::SYN, vec![]),
            (Shape::HttpHeadNeverCompletes, 1) => self.pkt(true, fr::ACK | fr::PSH, b"GET / HTTP/1.1\r\nHost: example.com\r\nX-Long: ".to_vec()),
            (Shape::HttpHeadNeverCompletes, _) => {
                let p = self.text();
                self.pkt(true, fr::ACK | fr::PSH, p)
            }
            (Shape::SynThenBinary, _) => {
                let p = self.filler(0x80);
                self.pkt(true, fr::ACK | fr::PSH, p)
            }
            (Shape::RequestThenEndlessBody, 1) => self.pkt(true, fr::ACK | fr::PSH, req.head()),
            (Shape::RequestThenEndlessBody, _) => {
                let p = self.filler(0x41);
                self.pkt(true, fr::ACK | fr::PSH, p)
            }
            (Shape::UpgradeThenEndlessData, 1) | (Shape::ContinueThenEndlessData, 1) => self.pkt(true, fr::ACK | fr::PSH, req.head()),
            (Shape::UpgradeThenEndlessData, 2) => self.pkt(false, fr::ACK | fr::PSH, b"HTTP/1.1 101 Switching Protocols\r\nUpgrade: websocket\r\nConnection: Upgrade\r\n\r\n".to_vec()),
            (Shape::ContinueThenEndlessData, 2) => self.pkt(false, fr::ACK | fr::PSH, b"HTTP/1.1 100 Continue\r\n\r\n".to_vec()),
            (Shape::UpgradeThenEndlessData, _) | (Shape::ContinueThenEndlessData, _) => {
                let p = self.filler(0x81);
                self.pkt(false, fr::ACK | fr::PSH, p)
            }
            (Shape::ExchangeThenEndlessResponse, 1) => self.pkt(true, fr::ACK | fr::PSH, req.head()),
            (Shape::ExchangeThenEndlessResponse, 2) => self.pkt(false, fr::ACK | fr::PSH, b"HTTP/1.1 200 OK\r\nServer: nginx\r\nContent-Type: video/mp4\r\n\r\n".to_vec()),
            (Shape::ExchangeThenEndlessResponse, _) => {
                let p = self.filler(0x00);
                self.pkt(false, fr::ACK | fr::PSH, p)
            }
            (Shape::HelloThenAppData, 1) => self.pkt(true, fr::ACK | fr::PSH, tls::simple_hello().record()),
            (Shape::HelloThenAppData, _) | (Shape::NonHelloHandshakeThenAppData, 2..) => {
                let mut p = self.filler(0x17);
                if p.len() >= 5 {
                    p[1] = 3;
                    p[2] = 3;
                    p[3] = 0x3f;
                    p[4] = 0xff;
                }
                self.pkt(i % 3 != 0, fr::ACK | fr::PSH, p)
            }
            (Shape::NonHelloHandshakeThenAppData, 1) => {
                let mut sh = vec![0x16, 0x03, 0x03, 0x00, 0x2a, 0x02, 0x00, 0x00, 0x26, 0x03, 0x03];
                sh.extend(std::iter::repeat(0x11).take(32));
                sh.extend_from_slice(&[0x00, 0x13, 0x01, 0x00]);
                self.pkt(true, fr::ACK | fr::PSH, sh)
            }
            (Shape::HugeDeclaredRecord, 1) => {
                let mut p = vec![0x16, 0x03, 0x03, 0xff, 0xff, 0x01, 0x00, 0xff, 0xfb];
                p.extend(self.rng.bytes(self.seg.saturating_sub(9)));
                self.pkt(true, fr::ACK | fr::PSH, p)
            }
            (Shape::HugeDeclaredRecord, _) => {
                let p = self.filler(0x55);
                self.pkt(true, fr::ACK | fr::PSH, p)
            }
            (Shape::ManyRecordsPerSegment, _) => {
                let rec = [0x16u8, 0x03, 0x03, 0x00, 0x04, 0x0e, 0x00, 0x00, 0x00];
                let n = (self.seg / rec.len()).max(2);
                let p: Vec<u8> = rec.iter().cycle().take(n * rec.len()).copied().collect();
                self.pkt(true, fr::ACK | fr::PSH, p)
            }
            (Shape::SmallNonHelloRecords, _) => self.pkt(true, fr::ACK | fr::PSH, vec![0x16, 0x03, 0x03, 0x00, 0x04, 0x0e, 0x00, 0x00, 0x00]),
        }
    }
}

#[derive(Clone, Copy, Debug, PartialEq, Eq, Hash)]
pub enum Kind {
    Tcp,
    Http,
    Tls,
    Unified,
}

enum A<'a> {
    Tcp(drive::TcpTracker),
    Http(HttpState),
    Tls(TlsState),
    Unified(huginn_net::HuginnNet<'a>),
}

fn feed(a: &mut A, f: &[u8]) {
    match a {
        A::Tcp(t) => {
            if let TcpOut::Ok(r) = drive::tcp_packet(f, t, true) {
                drop(r)
            }
        }
        A::Http(h) => {
            let _ = h.feed(f, true);
        }
        A::Tls(t) => {
            let _ = t.feed(f);
        }
        A::Unified(u) => {
            let _ = u.analyze_tcp(f);
        }
    }
}

pub struct Measure {
    pub live: Vec<i64>,
    pub alloc: Vec<u64>,
}

/// run `conns` connections of `shape` (round-robin) for `n` segments each on one analyzer with capacity `cap`
pub fn measure(kind: Kind, shape: Shape, n: usize, seg: usize, conns: usize, cap: usize, seed: u64) -> Measure {
    let mut a = match kind {
        Kind::Tcp => A::Tcp(ttl_cache::TtlCache::new(cap)),
        Kind::Http => A::Http(HttpState::new(cap)),
        Kind::Tls => A::Tls(TlsState::new(cap)),
        Kind::Unified => A::Unified(huginn_net::HuginnNet::new(Some(drive::default_db()), cap, None).expect("unified")),
    };
    let mut gens: Vec<ShapeGen> = (0..conns).map(|c| ShapeGen::new(shape, c as u16, seg, seed)).collect();
    // one-time process-wide allocations (bundled database, language table ...) must not be charged to the history:
    // warm them up on a throw-away instance before taking the baseline
    {
        let mut w = ShapeGen::new(Shape::ExchangeThenEndlessResponse, 60000, 64, 1);
        let mut wa = A::Unified(huginn_net::HuginnNet::new(Some(drive::default_db()), 4, None).expect("unified"));
        for _ in 0..4 {
            let f = w.next();
            feed(&mut wa, &f);
        }
        let _ = crate::props::c15::arc_db();
    }
    // the measurement vectors are allocated before the baseline is taken (they are not the analyzer's memory)
    let mut m = Measure { live: Vec::with_capacity(n), alloc: Vec::with_capacity(n) };
    let base_live = alloc::live();
    for i in 0..n {
        crate::engine::watchdog_touch();
        let mut total_alloc = 0;
        for g in gens.iter_mut() {
            let f = g.next();
            drive::set_clock(Some(1_000_000 + i as u64 * 40));
            let l0 = alloc::live();
            let a0 = alloc::allocated();
            feed(&mut a, &f);
            total_alloc += alloc::allocated() - a0;
            let _ = l0;
            drop(f);
        }
        m.alloc.push(total_alloc / conns as u64);
        m.live.push(alloc::live() - base_live);
    }
    drive::set_clock(None);
    m
}

fn median(v: &[u64]) -> u64 {
    let mut s = v.to_vec();
    s.sort_unstable();
    s[s.len() / 2]
}

pub struct Verdict {
    pub grows: bool,
    pub superlinear: bool,
    pub detail: String,
}

pub fn judge(m: &Measure, seg: usize, conns: usize, limit_per_conn: i64) -> Verdict {
    let n = m.live.len();
    let w = (n / 20).max(5);
    let live_mid = *m.live[n / 2 - w..n / 2].iter().max().unwrap();
    let live_end = *m.live[n - w..].iter().max().unwrap();
    // no growth between the middle and the end beyond a few segments per connection, and inside the per-connection limit
    let slack = (4 * seg as i64 + 4096) * conns as i64;
    let grows = live_end > live_mid + slack || live_end > limit_per_conn * conns as i64;
    let a10 = median(&m.alloc[n / 10..n / 10 + w]);
    let a50 = median(&m.alloc[n / 2..n / 2 + w]);
    let a100 = median(&m.alloc[n - w..]);
    let superlinear = a100 as f64 > 1.5 * a10.max(a50.min(a10)).max(1) as f64 + 4.0 * seg as f64 + 2048.0 && a100 as f64 > 1.5 * a50 as f64;
    Verdict { grows, superlinear, detail: format!("live bytes: middle {live_mid} end {live_end} (limit {} per connection); allocated per packet: at 10% {a10}, 50% {a50}, 100% {a100}", limit_per_conn) }
}

/// is the (analyzer, shape) combination inside the recorded HTTP finding?
pub fn http_finding_applies(kind: Kind, shape: Shape) -> bool {
    matches!(kind, Kind::Http | Kind::Unified) && matches!(shape, Shape::HttpHeadNeverCompletes | Shape::SynThenBinary | Shape::EndlessServerData | Shape::HugeDeclaredRecord | Shape::NonHelloHandshakeThenAppData | Shape::HelloThenAppData | Shape::SmallNonHelloRecords | Shape::ManyRecordsPerSegment | Shape::RequestThenEndlessBody | Shape::ExchangeThenEndlessResponse)
}

pub fn run(ctx: &Ctx) {
    ctx.assume("bytes are counted by a per-thread counting #[global_allocator] in the harness process; frames are generated outside the measured region; no wall-clock enters the oracle");
    ctx.assume("`bounded` is judged as: live bytes do not grow between the middle and the end of the history beyond a few segments, stay below 96 KiB per connection, and the median bytes allocated per packet at 100 % of the history is at most 1.5x the median at 10 % / 50 % (+ one segment)");
    let kinds = [Kind::Tcp, Kind::Http, Kind::Tls, Kind::Unified];
    let n_lin = ctx.tier.pick(3000usize, 120_000);
    let n_quad = ctx.tier.pick(1200usize, 4000);
    let combos: Vec<(Kind, Shape)> = kinds.iter().flat_map(|k| SHAPES.iter().map(move |s| (*k, *s))).collect();
    let nc = combos.len() as u64;
    // measured single-threaded per case (counters are per thread), cases spread over the rayon pool
    ctx.run_indexed(
        "single-connection-histories",
        "14 traffic shapes (101 Switching Protocols resp. 100 Continue then endless server data, many small non-ClientHello handshake records per segment, HTTP-looking head that never completes, SYN then binary, request then endless body, exchange then endless response, endless server data, ClientHello then application data, non-ClientHello handshake record then application data, huge declared record length, endless small non-ClientHello records, random bytes without SYN, timestamped ACKs) x {TCP, HTTP, TLS, unified} analyzer x N segments of 700 bytes (quick N = 3000; thorough N = 120000; shapes inside the recorded quadratic HTTP finding are capped at 1200 / 4000); oracle: counting allocator, no growth of retained bytes and no growth of bytes allocated per packet with the packet index; non-trivial: every history",
        true,
        nc,
        |i, st| {
            let (k, s) = combos[i as usize];
            let known = http_finding_applies(k, s);
            let n = if known { n_quad } else { n_lin };
            st.evals += 1;
            st.nontrivial(&(k, s));
            let m = measure(k, s, n, 700, 1, 1000, ctx.seed);
            let v = judge(&m, 700, 1, 96 * 1024);
            st.sample(|| json!({"analyzer": format!("{:?}", k), "shape": format!("{:?}", s), "segments": n, "measured": v.detail}));
            if v.grows || v.superlinear {
                let what = format!("{:?}:{:?}:{}", k, s, if v.grows { "retained-memory-grows-with-history" } else { "work-per-packet-grows-with-history" });
                if known && ctx.is_known(K_HTTP) && matches!(s, Shape::HttpHeadNeverCompletes | Shape::SynThenBinary | Shape::EndlessServerData | Shape::HugeDeclaredRecord | Shape::NonHelloHandshakeThenAppData | Shape::HelloThenAppData | Shape::SmallNonHelloRecords | Shape::ManyRecordsPerSegment) {
                    st.known(K_HTTP);
                } else {
                    st.fail(Fail::new(what, v.detail), json!({"analyzer": format!("{:?}", k), "shape": format!("{:?}", s), "segments": n}));
                }
            }
        },
    );
    // capacity: K connections at capacity K, and K + extra (eviction)
    let caps: Vec<(Kind, Shape, usize, usize)> = vec![
        (Kind::Tls, Shape::HugeDeclaredRecord, 8, 8),
        (Kind::Tls, Shape::HugeDeclaredRecord, 12, 8),
        (Kind::Tls, Shape::NonHelloHandshakeThenAppData, 8, 8),
        (Kind::Tcp, Shape::TimestampedAcks, 64, 16),
        (Kind::Http, Shape::RequestThenEndlessBody, 16, 16),
        (Kind::Http, Shape::ExchangeThenEndlessResponse, 24, 16),
        (Kind::Unified, Shape::HelloThenAppData, 16, 16),
    ];
    let n_cap = ctx.tier.pick(400usize, 4000);
    ctx.run_indexed("capacity", "K interleaved connections at analyzer capacity K, and K + extra connections (eviction): retained bytes stay below capacity x 96 KiB and do not grow with the history; non-trivial: every configuration", true, caps.len() as u64, |i, st| {
        let (k, s, conns, cap) = caps[i as usize];
        st.evals += 1;
        st.nontrivial(&(k, s, conns, cap));
        let m = measure(k, s, n_cap, 700, conns, cap, ctx.seed);
        let v = judge(&m, 700, conns, 96 * 1024);
        st.sample(|| json!({"analyzer": format!("{:?}", k), "shape": format!("{:?}", s), "connections": conns, "capacity": cap, "measured": v.detail}));
        // with eviction the bound is capacity x limit
        let n = m.live.len();
        let end = *m.live[n - 10..].iter().max().unwrap();
        if end > (cap as i64) * 96 * 1024 + 64 * 1024 || v.grows && conns <= cap {
            if http_finding_applies(k, s) && matches!(s, Shape::HelloThenAppData | Shape::NonHelloHandshakeThenAppData | Shape::HugeDeclaredRecord | Shape::SmallNonHelloRecords | Shape::SynThenBinary | Shape::HttpHeadNeverCompletes) && ctx.is_known(K_HTTP) {
                st.known(K_HTTP);
                return;
            }
            st.fail(Fail::new(format!("{:?}:{:?}:capacity-bound-exceeded", k, s), v.detail), json!({"connections": conns, "capacity": cap}));
        }
    });
}

/// connection churn: `m` connections, each new, each leaving `pkts` segments of state behind, on one analyzer of capacity `cap`
pub fn measure_churn(kind: Kind, shape: Shape, m: usize, pkts: usize, cap: usize, seed: u64) -> Vec<i64> {
    let mut a = match kind {
        Kind::Tcp => A::Tcp(ttl_cache::TtlCache::new(cap)),
        Kind::Http => A::Http(HttpState::new(cap)),
        Kind::Tls => A::Tls(TlsState::new(cap)),
        Kind::Unified => A::Unified(huginn_net::HuginnNet::new(Some(drive::default_db()), cap, None).expect("unified")),
    };
    {
        let mut w = ShapeGen::new(Shape::ExchangeThenEndlessResponse, 60000, 64, 1);
        let mut wa = A::Unified(huginn_net::HuginnNet::new(Some(drive::default_db()), 4, None).expect("unified"));
        for _ in 0..4 {
            let f = w.next();
            feed(&mut wa, &f);
        }
        let _ = crate::props::c15::arc_db();
    }
    let mut live = Vec::with_capacity(m);
    let base = alloc::live();
    for i in 0..m {
        crate::engine::watchdog_touch();
        let mut g = ShapeGen::new(shape, (i % 60000) as u16, 200, seed);
        for _ in 0..pkts {
            let f = g.next();
            drive::set_clock(Some(1_000_000 + i as u64 * 7));
            feed(&mut a, &f);
        }
        live.push(alloc::live() - base);
    }
    drive::set_clock(None);
    live
}

pub fn run_churn(ctx: &Ctx) {
    let m = ctx.tier.pick(30_000usize, 59_000);
    // (analyzer, shape, segments per connection): each connection leaves per-connection state behind and never finishes
    let combos: Vec<(Kind, Shape, usize)> = vec![
        (Kind::Tcp, Shape::TimestampedAcks, 2),
        (Kind::Tcp, Shape::HttpHeadNeverCompletes, 1),
        (Kind::Unified, Shape::TimestampedAcks, 2),
        (Kind::Http, Shape::HttpHeadNeverCompletes, 2),
        (Kind::Unified, Shape::HttpHeadNeverCompletes, 2),
        (Kind::Tls, Shape::HugeDeclaredRecord, 2),
        (Kind::Unified, Shape::HugeDeclaredRecord, 2),
    ];
    let caps = [1usize, 16, 100];
    ctx.run_indexed(
        "connection-churn",
        "M new connections (quick 30000, thorough 59000), each leaving per-connection state behind (timestamped segments for the uptime tracker, an unfinished HTTP head, an unfinished TLS record) and never finishing, on one analyzer of capacity 1 / 16 / 100; oracle: counting allocator - retained bytes stay below capacity x 96 KiB + 64 KiB and do not grow between the first quarter and the end of the history (beyond 64 KiB); non-trivial: every configuration",
        true,
        (combos.len() * caps.len()) as u64,
        |i, st| {
            let (k, s, pkts) = combos[i as usize % combos.len()];
            let cap = caps[i as usize / combos.len()];
            st.evals += 1;
            st.nontrivial(&(k, s, cap));
            let live = measure_churn(k, s, m, pkts, cap, ctx.seed);
            let q = *live[m / 4 - 50..m / 4].iter().max().unwrap();
            let e = *live[m - 50..].iter().max().unwrap();
            let detail = format!("{m} connections, capacity {cap}: live bytes after a quarter {q}, at the end {e}");
            st.sample(|| json!({"analyzer": format!("{:?}", k), "shape": format!("{:?}", s), "capacity": cap, "measured": detail}));
            if e > q + 64 * 1024 || e > cap as i64 * 96 * 1024 + 64 * 1024 {
                st.fail(Fail::new(format!("{:?}:{:?}:state-of-finished-or-evicted-connections-is-retained", k, s), detail), json!({"capacity": cap}));
            }
        },
    );
}

/// one TLS connection: a handshake record is begun, then the stream continues in segments of 1..4 bytes
pub fn run_tiny_segments(ctx: &Ctx) {
    let n = ctx.tier.pick(30_000usize, 400_000);
    ctx.run_indexed(
        "tls-tiny-segments",
        "one connection through the TLS analyzer: a first segment that begins a handshake record (declared length 40 / 300 / 16000 / 65535), then N segments of 1..4 payload bytes (quick N = 30000, thorough 400000); oracle: counting allocator - retained bytes stay below 96 KiB and do not grow between the first quarter and the end once the declared record length has been delivered; non-trivial: every configuration",
        true,
        4,
        |i, st| {
            let declared = [40u16, 300, 16000, 65535][i as usize];
            st.evals += 1;
            st.nontrivial(&declared);
            let mut t = TlsState::new(16);
            let ip = Ip::V4(Ip4 { src: [10, 3, 0, 1], dst: [10, 3, 0, 2], ..Ip4::default() });
            let mut seq = 1000u32;
            let mut send = |t: &mut TlsState, payload: Vec<u8>| {
                let tcp = Tcp { sport: 40000, dport: 443, seq, ack: 1, flags: fr::ACK | fr::PSH, payload: payload.clone(), ..Tcp::default() };
                seq = seq.wrapping_add(payload.len() as u32);
                let f = frame(Link::Ether, &ip, &tcp);
                let _ = t.feed(&f);
            };
            let base = alloc::live();
            send(&mut t, vec![0x16, 0x03, 0x03, (declared >> 8) as u8, declared as u8, 0x01, 0x00, 0x00, 0x24]);
            let mut live = Vec::with_capacity(n);
            for k in 0..n {
                crate::engine::watchdog_touch();
                send(&mut t, vec![0xAB; 1 + k % 4]);
                live.push(alloc::live() - base);
            }
            // the vector `live` itself was allocated after the baseline: subtract it
            let own = (n * std::mem::size_of::<i64>()) as i64;
            let after_record = (declared as usize * 2 / 5 + 10).min(n - 60); // segments needed to deliver the declared length (2.5 bytes each on average)
            let q = *live[(n / 4).max(after_record)..(n / 4).max(after_record) + 50].iter().max().unwrap() - own;
            let e = *live[n - 50..].iter().max().unwrap() - own;
            let detail = format!("declared record length {declared}, {n} segments of 1..4 bytes: live bytes after the record could be complete {q}, at the end {e}");
            st.sample(|| json!({"measured": detail}));
            if e > q + 16 * 1024 || e > 96 * 1024 {
                st.fail(Fail::new("Tls:tiny-segments:retained-memory-grows-with-history", detail), json!({"declared": declared}));
            }
        },
    );
}

/// per-worker bound: worker pools configured with a small capacity, many connections holding unfinished state at once
pub fn run_pool_memory(ctx: &Ctx) {
    use crate::pool::{run_pool, PoolCfg, PoolKind};
    let per_conn = ctx.tier.pick(24usize, 60);
    // (pool, shape, connections, capacity, workers, batch)
    // the last element: both endpoints of every connection on one address (a host talking to itself)
    let combos: Vec<(PoolKind, Shape, usize, usize, usize, usize, bool)> = vec![
        (PoolKind::Tls, Shape::HugeDeclaredRecord, 40, 2, 1, 32, false),
        (PoolKind::Tls, Shape::HugeDeclaredRecord, 40, 2, 1, 1, false),
        (PoolKind::Tls, Shape::HugeDeclaredRecord, 48, 3, 4, 64, false),
        // HTTP: shapes outside the recorded finding K-C11-http (the message is reported, what follows is not kept)
        (PoolKind::Http, Shape::RequestThenEndlessBody, 40, 2, 1, 32, false),
        (PoolKind::Http, Shape::RequestThenEndlessBody, 48, 3, 4, 8, false),
        // long connections within the capacity, every connection between two ports of ONE address (a host talking to itself): a pool
        // must not keep more for them than for the same connections between two hosts (reference run, same frame count)
        (PoolKind::Http, Shape::ExchangeThenEndlessResponse, 2, 2, 3, 8, true),
        (PoolKind::Http, Shape::ExchangeThenEndlessResponse, 3, 3, 5, 1, true),
        (PoolKind::Http, Shape::RequestThenEndlessBody, 2, 2, 4, 8, true),
        (PoolKind::Tcp, Shape::TimestampedAcks, 64, 2, 2, 16, false),
    ];
    ctx.run_indexed(
        "pool-memory-per-worker",
        "worker pools (TLS, HTTP, TCP) configured with a capacity of 2..3 connections per worker, 1..4 workers, batch sizes 1..64, fed 40..64 interleaved connections that each keep per-connection state (an unfinished TLS record; a reported request followed by an endless body; timestamped segments), the result channel being drained while the pool runs; oracle: process-wide counting allocator sampled when every packet has been analysed and before shutdown - retained bytes with 40..48 connections <= retained bytes with `capacity` connections (the pool's fixed costs) + workers x capacity x 96 KiB + 128 KiB; runs alone (the counter is process-wide); non-trivial: every configuration",
        true,
        1,
        |_i, st| {
            for (kind, shape, conns, cap, workers, batch, same_host) in combos.iter().copied() {
                st.evals += 1;
                st.nontrivial(&(format!("{:?}", kind), shape, conns, cap, workers, batch, same_host));
                // two runs: as many connections as one worker may hold (fixed costs of the pool: processors, tables, channels), then many more
                let long = conns == cap;
                let measure_pool = |n_conn: usize, per_conn: usize, same_host: bool| -> Result<Option<i64>, String> {
                    let mut gens: Vec<ShapeGen> = (0..n_conn).map(|c| { let mut g = ShapeGen::new(shape, c as u16, 1400, ctx.seed); g.same_host = same_host; g }).collect();
                    let mut frames: Vec<Vec<u8>> = vec![];
                    for round in 0..per_conn {
                        for g in gens.iter_mut() {
                            frames.push(g.next());
                            if long && round == 0 {
                                frames.push(g.syn_ack());
                            }
                        }
                    }
                    // the same queue size in both runs (a bounded channel may pre-allocate its slots)
                    let cfg = PoolCfg { workers, queue: conns * per_conn * if long { 25 } else { 1 } + 16, batch, timeout_ms: 5, dispatchers: 1, perturb: None, max_sleep_us: 0, max_conn: cap };
                    let _ = crate::props::c15::arc_db();
                    crate::alloc::global_enable(true);
                    let base = crate::alloc::global_live();
                    let run = run_pool(kind, &frames, &cfg, None, None);
                    crate::alloc::global_enable(false);
                    let run = run?;
                    if run.drain_timeout || run.worker_panic.is_some() {
                        return Ok(None);
                    }
                    Ok(Some(run.live_at_quiescence.unwrap_or(base) - base))
                };
                let (few, many) = match (if long { measure_pool(conns, per_conn * 25, false) } else { measure_pool(cap, per_conn, false) }, measure_pool(conns, if long { per_conn * 25 } else { per_conn }, same_host)) {
                    (Ok(Some(a)), Ok(Some(b))) => (a, b),
                    (Err(e), _) | (_, Err(e)) => {
                        st.fail(Fail::new("pool:new", e), json!({}));
                        continue;
                    }
                    _ => {
                        st.discards += 1;
                        continue;
                    }
                };
                let bound = if long { few + 256 * 1024 } else { few + (workers * cap) as i64 * 96 * 1024 + 128 * 1024 };
                let detail = format!("{:?} pool{}, {workers} worker(s), capacity {cap}, batch {batch}, segments of 1400 bytes x {per_conn} per connection: {few} bytes retained with {cap} connections, {many} with {conns}{} (bound {bound})", kind, if same_host { " (every connection between two ports of one address)" } else { "" }, if long { " carrying 25 x the segments; the first figure is the same run between two hosts" } else { "" });
                st.sample(|| json!({"measured": detail}));
                if many > bound {
                    st.fail(Fail::new(format!("{:?}-pool:{:?}:retained-memory-exceeds-per-worker-capacity", kind, shape), detail), json!({"capacity": cap, "workers": workers, "batch": batch}));
                }
            }
        },
    );
}

pub fn replay(ctx: &Ctx, _sub: &str, _input: &serde_json::Value) -> Result<(), Fail> {
    let _ = ctx;
    Err(fail!("bad-replay", "C11 histories are deterministic functions of (analyzer, shape, N): re-run the check"))
}
