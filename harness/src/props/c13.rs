//! C13 — every bundled signature is reachable by the traffic it describes.
use crate::drive::{self, HttpState, TcpOut};
use crate::engine::{Ctx, Fail, Stats, VERIF_ROOT};
use crate::gen::frames::{self as fr, frame, Ip, Ip4, Ip6, Link, Tcp};
use crate::model::tcp::{encode_opts, OptItem};
use huginn_net_db::{http as dh, tcp as dt};
use serde_json::json;
use std::collections::BTreeSet;

#[derive(Clone, Debug)]
pub struct SigLine {
    pub line: usize,
    pub section: String,
    pub label: String,
    pub text: String,
}

/// (section, line number, label name+flavor, signature text) for every `sig =` line, in file order
pub fn sig_lines() -> Vec<SigLine> {
    let text = std::fs::read_to_string(crate::props::c06::P0F_PATH).expect("p0f.fp");
    let mut out = vec![];
    let mut section = String::new();
    let mut label = String::new();
    for (i, raw) in text.lines().enumerate() {
        let l = raw.trim();
        if l.starts_with('[') && l.ends_with(']') {
            section = l[1..l.len() - 1].to_string();
        } else if l.starts_with("label") {
            label = l.split_once('=').map(|(_, v)| v.trim().to_string()).unwrap_or_default();
        } else if l.starts_with("sig") && section != "mtu" {
            out.push(SigLine { line: i + 1, section: section.clone(), label: label.clone(), text: l.split_once('=').map(|(_, v)| v.trim().to_string()).unwrap_or_default() });
        }
    }
    out
}

fn label_key(l: &huginn_net_db::Label) -> String {
    format!("{}:{}:{}:{}", if l.ty == huginn_net_db::Type::Specified { "s" } else { "g" }, l.class.clone().unwrap_or_else(|| "!".into()), l.name, l.flavor.clone().unwrap_or_default())
}

// ------------------------------------------------------------------------------------------------
// TCP
// ------------------------------------------------------------------------------------------------
#[derive(Clone, Debug)]
pub struct TcpInst {
    pub v4: bool,
    pub ttl: u8,
    pub olen: u8,
    pub mss: Option<u16>,
    pub window: u16,
    pub wscale: Option<u8>,
    pub opts: Vec<OptItem>,
    pub quirks: BTreeSet<&'static str>,
    pub payload: bool,
    pub class: String,
}

fn quirk_name(q: &dt::Quirk) -> &'static str {
    use dt::Quirk::*;
    match q {
        Df => "df",
        NonZeroID => "id+",
        ZeroID => "id-",
        Ecn => "ecn",
        MustBeZero => "0+",
        FlowID => "flow",
        SeqNumZero => "seq-",
        AckNumNonZero => "ack+",
        AckNumZero => "ack-",
        NonZeroURG => "uptr+",
        Urg => "urgf+",
        Push => "pushf+",
        OwnTimestampZero => "ts1-",
        PeerTimestampNonZero => "ts2+",
        TrailinigNonZero => "opt+",
        ExcessiveWindowScaling => "exws",
        OptBad => "bad",
    }
}
const V4_ONLY: [&str; 4] = ["df", "id+", "id-", "0+"];
const V6_ONLY: [&str; 1] = ["flow"];

/// all instantiation classes of a TCP signature (finite, deterministic)
pub fn tcp_instances(s: &dt::Signature, response: bool) -> Vec<TcpInst> {
    let mut out = vec![];
    let vers: Vec<bool> = match s.version {
        dt::IpVersion::V4 => vec![true],
        dt::IpVersion::V6 => vec![false],
        dt::IpVersion::Any => vec![true, false],
    };
    let ittl = match s.ittl {
        dt::Ttl::Value(v) => v,
        dt::Ttl::Guess(v) => v,
        dt::Ttl::Distance(a, b) => a.saturating_add(b),
        dt::Ttl::Bad(_) => return out,
    };
    let sigq: BTreeSet<&'static str> = s.quirks.iter().map(quirk_name).collect();
    if sigq.contains("bad") {
        return out; // malformed-options signatures: no well-formed traffic conforms
    }
    let has = |o: &dt::TcpOption| s.olayout.contains(o);
    for v4 in vers {
        // quirks the header can realise for this IP version (v4-only tokens are ignored on IPv6 and vice versa)
        let q: BTreeSet<&'static str> = sigq.iter().copied().filter(|t| if v4 { !V6_ONLY.contains(t) } else { !V4_ONLY.contains(t) }).collect();
        if s.olen != 0 && (!v4 || s.olen % 4 != 0 || s.olen > 40) {
            continue;
        }
        for hops in [0u8, 7, 30] {
            if ittl <= hops {
                continue;
            }
            let mss_choices: Vec<Option<u16>> = match (s.mss, has(&dt::TcpOption::Mss)) {
                (Some(m), true) => vec![Some(m)],
                (Some(_), false) => vec![],
                (None, true) => vec![Some(1460), Some(1380), Some(1024), Some(1408)],
                (None, false) => vec![None],
            };
            for mss in mss_choices {
                let ws_choices: Vec<Option<u8>> = match (s.wscale, has(&dt::TcpOption::Ws)) {
                    (Some(w), true) => vec![Some(w)],
                    (Some(_), false) => vec![],
                    (None, true) => {
                        if q.contains("exws") { vec![Some(15)] } else { vec![Some(7), Some(0)] }
                    }
                    (None, false) => vec![None],
                };
                for ws in ws_choices {
                    if let Some(w) = ws {
                        if (w > 14) != q.contains("exws") {
                            continue;
                        }
                    }
                    let m = mss.unwrap_or(0) as u32;
                    let hdr: u32 = if v4 { 40 } else { 60 };
                    let wins: Vec<(u32, &str)> = match s.wsize {
                        dt::WindowSize::Value(v) => vec![(v as u32, "win=fixed")],
                        dt::WindowSize::Mod(k) => vec![(k as u32 * 3, "win=mod*3"), (k as u32 * 4, "win=mod*4")],
                        dt::WindowSize::Mss(n) => vec![(m * n as u32, "win=mss*n")],
                        dt::WindowSize::Mtu(n) => vec![((m + hdr) * n as u32, "win=mtu*n")],
                        dt::WindowSize::Any => vec![(12345, "win=odd"), (8192, "win=8192"), (m * 4, "win=mss*4")],
                    };
                    for (win, wclass) in wins {
                        if win > 65535 || (win == 0 && !matches!(s.wsize, dt::WindowSize::Value(0))) {
                            continue;
                        }
                        let pcs: Vec<bool> = match s.pclass {
                            dt::PayloadSize::Zero => vec![false],
                            dt::PayloadSize::NonZero => vec![true],
                            dt::PayloadSize::Any => vec![false, true],
                        };
                        for payload in pcs {
                            // option bytes realising the layout
                            let mut opts = vec![];
                            let mut ok = true;
                            for o in &s.olayout {
                                use dt::TcpOption as T;
                                match o {
                                    T::Eol(n) => {
                                        opts.push(OptItem::Eol);
                                        for _ in 0..*n {
                                            opts.push(if q.contains("opt+") { OptItem::Nop } else { OptItem::Eol });
                                        }
                                    }
                                    T::Nop => opts.push(OptItem::Nop),
                                    T::Mss => opts.push(OptItem::Mss(mss.unwrap_or(0))),
                                    T::Ws => opts.push(OptItem::Ws(ws.unwrap_or(0))),
                                    T::Sok => opts.push(OptItem::Sok),
                                    T::Sack => opts.push(OptItem::Sack(1)),
                                    T::TS => opts.push(OptItem::Ts(if q.contains("ts1-") { 0 } else { 123456 }, if q.contains("ts2+") || response { 7777 } else { 0 })),
                                    T::Unknown(k) => opts.push(OptItem::Unknown(*k, vec![0, 0])),
                                }
                            }
                            let len = encode_opts(&opts).len();
                            if len > 40 || len % 4 != 0 {
                                ok = false; // the layout cannot be realised as a well-formed option area without extra padding
                            }
                            if !ok {
                                continue;
                            }
                            out.push(TcpInst {
                                v4,
                                ttl: ittl - hops,
                                olen: s.olen,
                                mss,
                                window: win as u16,
                                wscale: ws,
                                opts,
                                quirks: q.clone(),
                                payload,
                                class: format!("v{}|hops{}|mss{}|ws{}|{}|{}", if v4 { 4 } else { 6 }, hops, mss.map(|x| x.to_string()).unwrap_or("-".into()), ws.map(|x| x.to_string()).unwrap_or("-".into()), wclass, if payload { "pl+" } else { "pl0" }),
                            });
                        }
                    }
                }
            }
        }
    }
    out
}

pub fn tcp_frame(i: &TcpInst, response: bool) -> Vec<u8> {
    let q = &i.quirks;
    let ecn = q.contains("ecn");
    let ip = if i.v4 {
        let df = q.contains("df");
        let id = if q.contains("id+") { 0x1234 } else if q.contains("id-") { 0 } else if df { 0 } else { 0x4321 };
        Ip::V4(Ip4 { ihl: 5 + i.olen / 4, options: vec![1; i.olen as usize], tos: if ecn { 2 } else { 0 }, id, flags: (if df { 0b010 } else { 0 }) | (if q.contains("0+") { 0b100 } else { 0 }), ttl: i.ttl, src: [198, 51, 100, 7], dst: [198, 51, 100, 9], ..Ip4::default() })
    } else {
        Ip::V6(Ip6 { hop: i.ttl, flow: if q.contains("flow") { 0x12345 } else { 0 }, tclass: if ecn { 2 } else { 0 }, ..Ip6::default() })
    };
    let mut flags = if response { fr::SYN | fr::ACK } else { fr::SYN };
    if q.contains("pushf+") {
        flags |= fr::PSH;
    }
    if q.contains("urgf+") {
        flags |= fr::URG;
    }
    let seq = if q.contains("seq-") { 0 } else { 0x1020_3040 };
    let ack = if response { if q.contains("ack-") { 0 } else { 0x0a0b_0c0d } } else if q.contains("ack+") { 0x0a0b_0c0d } else { 0 };
    let urg = if q.contains("uptr+") { 9 } else { 0 };
    let tcp = Tcp { sport: 45000, dport: 80, seq, ack, flags, window: i.window, urg, options: encode_opts(&i.opts), payload: if i.payload { b"x".to_vec() } else { vec![] }, ..Tcp::default() };
    frame(Link::Ether, &ip, &tcp)
}

/// p0f-semantics conformance of generated traffic to a signature (the harness's own matcher)
pub fn tcp_conforms(i: &TcpInst, s: &dt::Signature) -> bool {
    match s.version {
        dt::IpVersion::V4 if !i.v4 => return false,
        dt::IpVersion::V6 if i.v4 => return false,
        _ => {}
    }
    let ittl = match s.ittl {
        dt::Ttl::Value(v) | dt::Ttl::Guess(v) => v,
        _ => return false,
    };
    if i.ttl > ittl || ittl - i.ttl > 30 {
        return false;
    }
    if s.olen != i.olen {
        return false;
    }
    if let Some(m) = s.mss {
        if i.mss != Some(m) {
            return false;
        }
    }
    if let Some(w) = s.wscale {
        if i.wscale != Some(w) {
            return false;
        }
    }
    let m = i.mss.unwrap_or(0) as u32;
    let w = i.window as u32;
    let hdr: u32 = if i.v4 { 40 } else { 60 };
    let win_ok = match s.wsize {
        dt::WindowSize::Any => true,
        dt::WindowSize::Value(v) => w == v as u32,
        dt::WindowSize::Mod(k) => k != 0 && w % k as u32 == 0,
        dt::WindowSize::Mss(n) => w == m * n as u32,
        dt::WindowSize::Mtu(n) => w == (m + hdr) * n as u32,
    };
    if !win_ok {
        return false;
    }
    // layout
    let lay: Vec<String> = crate::model::tcp::walk_opts(&i.opts, true, true).layout;
    let sl: Vec<String> = s.olayout.iter().map(|o| format!("{o}")).collect();
    if lay != sl {
        return false;
    }
    let sq: BTreeSet<&'static str> = s.quirks.iter().map(quirk_name).filter(|t| if i.v4 { !V6_ONLY.contains(t) } else { !V4_ONLY.contains(t) }).collect();
    if sq != i.quirks {
        return false;
    }
    match s.pclass {
        dt::PayloadSize::Any => true,
        dt::PayloadSize::Zero => !i.payload,
        dt::PayloadSize::NonZero => i.payload,
    }
}

// ------------------------------------------------------------------------------------------------
// HTTP
// ------------------------------------------------------------------------------------------------
#[derive(Clone, Debug)]
pub struct HttpInst {
    pub v11: bool,
    pub headers: Vec<(String, String)>,
    pub class: String,
}

pub fn http_instances(s: &dh::Signature, request: bool) -> Vec<HttpInst> {
    let mut out = vec![];
    let vers: Vec<bool> = match s.version {
        dh::Version::V10 => vec![false],
        dh::Version::V11 => vec![true],
        _ => vec![false, true],
    };
    let sw_header = if request { "User-Agent" } else { "Server" };
    for v11 in vers {
        for optional_in in [false, true] {
            for sw_mode in ["exact", "embedded"] {
                for val_mode in ["exact", "embedded"] {
                    let mut headers = vec![];
                    let mut has_sw = false;
                    for h in &s.horder {
                        if h.optional && !optional_in {
                            continue;
                        }
                        let mut v = match (&h.value, val_mode) {
                            (Some(v), "exact") => v.clone(),
                            (Some(v), _) => format!("{v}"),
                            (None, _) => "v".to_string(),
                        };
                        if val_mode == "embedded" {
                            if let Some(sv) = &h.value {
                                v = format!("a{sv}z");
                            }
                        }
                        if h.name.eq_ignore_ascii_case(sw_header) {
                            has_sw = true;
                            v = if sw_mode == "exact" { s.expsw.clone() } else { format!("Mozilla/5.0 (compatible) {} z/1.0", s.expsw) };
                        }
                        if h.name == "Host" {
                            v = "example.com".into();
                        }
                        headers.push((h.name.clone(), v.trim().to_string()));
                    }
                    // a software token with leading/trailing blanks cannot be the whole header value (OWS is trimmed)
                    let inst_probe = HttpInst { v11, headers: headers.clone(), class: String::new() };
                    if !http_conforms(&inst_probe, s, request) {
                        continue;
                    }
                    if !has_sw && !s.expsw.is_empty() {
                        // the signature expects a software string but lists no header that carries it: not instantiable
                        continue;
                    }
                    if !s.horder.iter().any(|h| h.optional) && optional_in {
                        continue;
                    }
                    if !s.horder.iter().any(|h| h.value.is_some()) && val_mode == "embedded" {
                        continue;
                    }
                    out.push(HttpInst { v11, headers, class: format!("{}|opt-{}|sw-{}|val-{}", if v11 { "1.1" } else { "1.0" }, if optional_in { "in" } else { "out" }, sw_mode, val_mode) });
                }
            }
        }
    }
    out
}

/// p0f-semantics conformance: header order with optional skips, listed values as substrings, absent headers absent, software substring
pub fn http_conforms(i: &HttpInst, s: &dh::Signature, request: bool) -> bool {
    match s.version {
        dh::Version::V10 if i.v11 => return false,
        dh::Version::V11 if !i.v11 => return false,
        _ => {}
    }
    let mut oi = 0;
    for h in &s.horder {
        match i.headers.get(oi) {
            Some((n, v)) if n == &h.name => {
                if let Some(sv) = &h.value {
                    if !v.contains(sv.as_str()) && !h.optional {
                        return false;
                    }
                }
                oi += 1;
            }
            _ => {
                if !h.optional {
                    return false;
                }
            }
        }
    }
    if oi != i.headers.len() {
        return false;
    }
    for a in &s.habsent {
        if i.headers.iter().any(|(n, _)| n.eq_ignore_ascii_case(&a.name)) {
            return false;
        }
    }
    let sw_header = if request { "User-Agent" } else { "Server" };
    let sw = i.headers.iter().find(|(n, _)| n.eq_ignore_ascii_case(sw_header)).map(|(_, v)| v.as_str()).unwrap_or("");
    sw.contains(s.expsw.as_str())
}

pub fn http_message(i: &HttpInst, request: bool) -> Vec<u8> {
    let mut m = if request { format!("GET / {}\r\n", if i.v11 { "HTTP/1.1" } else { "HTTP/1.0" }) } else { format!("{} 200 OK\r\n", if i.v11 { "HTTP/1.1" } else { "HTTP/1.0" }) };
    for (n, v) in &i.headers {
        m.push_str(&format!("{n}: {v}\r\n"));
    }
    m.push_str("\r\n");
    m.into_bytes()
}

// ------------------------------------------------------------------------------------------------
// known findings of C13: one entry per (signature line, instantiation class, observed winner)
// ------------------------------------------------------------------------------------------------
pub fn load_c13_known() -> BTreeSet<String> {
    let path = format!("{VERIF_ROOT}/known_findings_c13.json");
    let mut set = BTreeSet::new();
    if let Ok(t) = std::fs::read_to_string(path) {
        if let Ok(v) = serde_json::from_str::<serde_json::Value>(&t) {
            for e in v["entries"].as_array().cloned().unwrap_or_default() {
                if let Some(k) = e["key"].as_str() {
                    set.insert(k.to_string());
                }
            }
        }
    }
    set
}

pub struct Outcome {
    pub key: String,
    pub cause: &'static str,
    pub detail: String,
}

pub fn run(ctx: &Ctx) {
    ctx.assume("conformance is decided by the harness's own p0f-semantics matcher over the generated structure (TTL within 30 hops of the initial TTL, window by the form's definition, v4-only quirks ignored on IPv6 and vice versa, header values as substrings, optional headers skippable)");
    ctx.assume("known findings of C13 are keyed by (p0f.fp line of the signature, instantiation class, observed winner) in known_findings_c13.json; a different winner or an unlisted (line, class) is a violation");
    let db = drive::default_db();
    let lines = sig_lines();
    let known = if ctx.strict { BTreeSet::new() } else { load_c13_known() };
    let list_mode = std::env::var("VERIF_C13_LIST").is_ok();
    let listing: std::sync::Mutex<Vec<serde_json::Value>> = std::sync::Mutex::new(vec![]);
    // flat list of TCP signatures with their line
    let mut tcp_sigs: Vec<(usize, bool, usize, usize)> = vec![]; // (index into lines, response, label idx, sig idx)
    let mut li = 0;
    for (response, coll) in [(false, &db.tcp_request), (true, &db.tcp_response)] {
        for (lab, (_l, sigs)) in coll.entries.iter().enumerate() {
            for (si, _s) in sigs.iter().enumerate() {
                tcp_sigs.push((li, response, lab, si));
                li += 1;
            }
        }
    }
    let n_tcp = tcp_sigs.len() as u64;
    ctx.run_indexed(
        "tcp-signatures",
        "every TCP SYN / SYN+ACK signature of p0f.fp x every instantiation class (IP version admitted, hops {0, 7, 30}, MSS {1460, 1380, 1024, 1408} for `*` (incl. values that make MSS multiples divisible by 256), window scale {7, 0} for `*`, window realising the form - fixed value, modulus x3 / x4, mss*n, mtu*n, for `*`: odd / 8192 / mss*4 -, payload class) built as a real packet (option bytes realise the layout incl. eol+n padding, header bits realise exactly the quirks) through the TCP analyzer with the bundled database; oracle: best-match label is the signature's own or that of an earlier entry the traffic conforms to; non-trivial: the instantiation fills a wildcard or uses hops > 0",
        true,
        n_tcp,
        |idx, st| {
            let (li, response, lab, si) = tcp_sigs[idx as usize];
            let coll = if response { &db.tcp_response } else { &db.tcp_request };
            let sig = &coll.entries[lab].1[si];
            let own = label_key(&coll.entries[lab].0);
            let line = &lines[li];
            if line.text != format!("{sig}") {
                st.fail(fail!("harness:line-mapping", "line {} {:?} vs {}", line.line, line.text, sig), json!({}));
                return;
            }
            let insts = tcp_instances(sig, response);
            if insts.is_empty() {
                st.class("signature-without-realisable-instance");
            }
            for inst in insts {
                st.evals += 1;
                if !tcp_conforms(&inst, sig) {
                    st.fail(fail!("harness:instance-does-not-conform", "line {} class {}", line.line, inst.class), json!({}));
                    continue;
                }
                st.nontrivial(&(line.line, &inst.class));
                let f = tcp_frame(&inst, response);
                let mut tracker = ttl_cache::TtlCache::new(4);
                drive::set_clock(Some(1_000_000));
                let got: Option<String> = match drive::tcp_packet(&f, &mut tracker, true) {
                    TcpOut::Ok(r) => {
                        let m = if response { r.syn_ack.as_ref().map(|x| &x.os_matched) } else { r.syn.as_ref().map(|x| &x.os_matched) };
                        m.and_then(|m| m.os.as_ref().map(|o| format!("{}:{}:{}:{}", if o.kind == huginn_net_db::Type::Specified { "s" } else { "g" }, o.family.clone().unwrap_or_else(|| "!".into()), o.name, o.variant.clone().unwrap_or_default())))
                    }
                    _ => None,
                };
                // acceptable: own label or the label of an earlier entry the traffic conforms to
                let mut acceptable: BTreeSet<String> = BTreeSet::new();
                acceptable.insert(own.clone());
                'outer: for (l2, (lb, sigs)) in coll.entries.iter().enumerate() {
                    for (s2, sg) in sigs.iter().enumerate() {
                        if l2 == lab && s2 == si {
                            break 'outer;
                        }
                        if tcp_conforms(&inst, sg) {
                            acceptable.insert(label_key(lb));
                        }
                    }
                }
                let ok = got.as_ref().map(|g| acceptable.contains(g)).unwrap_or(false);
                if !ok {
                    let winner = got.clone().unwrap_or_else(|| "NONE".into());
                    let key = format!("L{}|{}|{}", line.line, inst.class, winner);
                    let cause = if sig.olayout.iter().any(|o| matches!(o, dt::TcpOption::Eol(n) if *n > 0)) {
                        "eol+n-layout: padding after EOL rendered as further options (K-C03-eol)"
                    } else if matches!(sig.wsize, dt::WindowSize::Value(v) if v % 256 == 0 && v > 0) || inst.class.contains("win=8192") || inst.class.contains("win=mod") {
                        "window-abstracted-to-a-modulus: fixed / coarser-modulus windows divisible by 256 are observed as %m and no longer match"
                    } else if inst.class.contains("win=mtu") || inst.class.contains("win=mss") {
                        "window-multiple-re-expressed"
                    } else {
                        "other"
                    };
                    if list_mode {
                        listing.lock().unwrap().push(json!({"key": key, "cause": cause, "signature": line.text, "label": line.label}));
                    } else if known.contains(&key) {
                        st.known("K-C13");
                        st.class(&format!("known:{cause}"));
                    } else {
                        st.fail(fail!(format!("tcp:{key}"), "signature line {} `{}` ({}) class {}: best match {:?}, acceptable {:?} [{cause}]", line.line, line.text, line.label, inst.class, got, acceptable), json!({"line": line.line, "class": inst.class, "frame": crate::engine::hex(&f)}));
                    }
                }
                if line.line % 37 == 0 {
                    st.sample(|| json!({"line": line.line, "signature": line.text, "class": inst.class, "frame": crate::engine::hex(&f), "best_match": got}));
                }
            }
        },
    );
    // HTTP
    let mut http_sigs: Vec<(usize, bool, usize, usize)> = vec![];
    for (lab, (_l, sigs)) in db.http_request.entries.iter().enumerate() {
        for (si, _s) in sigs.iter().enumerate() {
            http_sigs.push((li, true, lab, si));
            li += 1;
        }
    }
    for (lab, (_l, sigs)) in db.http_response.entries.iter().enumerate() {
        for (si, _s) in sigs.iter().enumerate() {
            http_sigs.push((li, false, lab, si));
            li += 1;
        }
    }
    let n_http = http_sigs.len() as u64;
    ctx.run_indexed(
        "http-signatures",
        "every HTTP request / response signature of p0f.fp x {HTTP/1.0, 1.1 as admitted} x optional headers in / out x software string exact / embedded in a longer string x listed values exact / embedded, sent as real packets (SYN + data) through the HTTP analyzer with the bundled database; oracle as for TCP; non-trivial: every instantiation",
        true,
        n_http,
        |idx, st| {
            let (li, request, lab, si) = http_sigs[idx as usize];
            let (sig, own, entries): (&dh::Signature, String, Vec<(String, &dh::Signature)>) = if request {
                let c = &db.http_request;
                (&c.entries[lab].1[si], label_key(&c.entries[lab].0), c.entries.iter().flat_map(|(l, s)| s.iter().map(move |x| (label_key(l), x))).collect())
            } else {
                let c = &db.http_response;
                (&c.entries[lab].1[si], label_key(&c.entries[lab].0), c.entries.iter().flat_map(|(l, s)| s.iter().map(move |x| (label_key(l), x))).collect())
            };
            let line = &lines[li];
            if line.text != format!("{sig}") {
                st.fail(fail!("harness:line-mapping", "line {} {:?} vs {}", line.line, line.text, sig), json!({}));
                return;
            }
            let flat_idx = entries.iter().position(|(_, s)| std::ptr::eq(*s, sig)).unwrap_or(0);
            for inst in http_instances(sig, request) {
                st.evals += 1;
                if !http_conforms(&inst, sig, request) {
                    st.fail(fail!("harness:http-instance-does-not-conform", "line {} class {}", line.line, inst.class), json!({}));
                    continue;
                }
                st.nontrivial(&(line.line, &inst.class));
                let msg = http_message(&inst, request);
                let mut hs = HttpState::new(8);
                let cip = Ip::V4(Ip4 { src: [10, 9, 8, 7], dst: [10, 9, 8, 6], ..Ip4::default() });
                let sip = Ip::V4(Ip4 { src: [10, 9, 8, 6], dst: [10, 9, 8, 7], ..Ip4::default() });
                let _ = hs.feed(&frame(Link::Ether, &cip, &Tcp { sport: 41000, dport: 80, seq: 10, flags: fr::SYN, ..Tcp::default() }), true);
                let pkt = if request { frame(Link::Ether, &cip, &Tcp { sport: 41000, dport: 80, seq: 11, ack: 1, flags: fr::ACK | fr::PSH, payload: msg.clone(), ..Tcp::default() }) } else { frame(Link::Ether, &sip, &Tcp { sport: 80, dport: 41000, seq: 500, ack: 11, flags: fr::ACK | fr::PSH, payload: msg.clone(), ..Tcp::default() }) };
                let got: Option<String> = match hs.feed(&pkt, true) {
                    Ok(r) => {
                        if request {
                            r.http_request.and_then(|q| q.browser_matched.browser.map(|b| format!("{}:{}:{}:{}", if b.kind == huginn_net_db::Type::Specified { "s" } else { "g" }, b.family.unwrap_or_else(|| "!".into()), b.name, b.variant.unwrap_or_default())))
                        } else {
                            r.http_response.and_then(|q| q.web_server_matched.web_server.map(|b| format!("{}:{}:{}:{}", if b.kind == huginn_net_db::Type::Specified { "s" } else { "g" }, b.family.unwrap_or_else(|| "!".into()), b.name, b.variant.unwrap_or_default())))
                        }
                    }
                    Err(_) => None,
                };
                let mut acceptable: BTreeSet<String> = BTreeSet::new();
                acceptable.insert(own.clone());
                for (lk, sg) in entries.iter().take(flat_idx) {
                    if http_conforms(&inst, sg, request) {
                        acceptable.insert(lk.clone());
                    }
                }
                let ok = got.as_ref().map(|g| acceptable.contains(g)).unwrap_or(false);
                if !ok {
                    let winner = got.clone().unwrap_or_else(|| "NONE".into());
                    let key = format!("L{}|{}|{}", line.line, inst.class, winner);
                    let cause = if got.is_some() { "another-entry-wins-or-ties: up to two header mismatches cost nothing, software-string containment reversed (K-C12-expsw)" } else { "unmatched" };
                    if list_mode {
                        listing.lock().unwrap().push(json!({"key": key, "cause": cause, "signature": line.text, "label": line.label}));
                    } else if known.contains(&key) {
                        st.known("K-C13");
                        st.class(&format!("known:{cause}"));
                    } else {
                        st.fail(fail!(format!("http:{key}"), "signature line {} `{}` ({}) class {}: best match {:?}, acceptable {:?} [{cause}]", line.line, line.text, line.label, inst.class, got, acceptable), json!({"line": line.line, "class": inst.class, "message": String::from_utf8_lossy(&msg)}));
                    }
                }
                if line.line % 29 == 0 {
                    st.sample(|| json!({"line": line.line, "class": inst.class, "message": String::from_utf8_lossy(&msg), "best_match": got}));
                }
            }
        },
    );
    if list_mode {
        let mut l = listing.lock().unwrap().clone();
        l.sort_by_key(|e| e["key"].as_str().unwrap_or("").to_string());
        let out = json!({"comment": "C13 known findings: generated once with VERIF_C13_LIST=1 (reviewed by hand), never written by a check run. key = L<p0f.fp line>|<instantiation class>|<observed winner label or NONE>", "entries": l});
        std::fs::write(format!("{VERIF_ROOT}/known_findings_c13.candidate.json"), serde_json::to_string_pretty(&out).unwrap()).expect("write candidate list");
        eprintln!("wrote {} candidate entries to known_findings_c13.candidate.json", out["entries"].as_array().map(|a| a.len()).unwrap_or(0));
    }
    let _ = Stats::new();
}

// ------------------------------------------------------------------------------------------------
// the bundled HTTP signatures through parallel mode, for every address and port choice
// ------------------------------------------------------------------------------------------------
/// endpoints of connection `j`: distinct IPv4 hosts, one IPv4 host talking to itself, distinct IPv6 hosts, one IPv6 host talking to itself
fn endpoints(j: usize) -> (Ip, Ip, u16, u16) {
    let cport = 20000 + (j as u16 % 40000);
    let sport = [80u16, 8080, 1024, 49152][(j / 4) % 4];
    let mut a6 = [0u8; 16];
    a6[0] = 0x20;
    a6[1] = 0x01;
    a6[15] = 1 + (j % 200) as u8;
    let mut b6 = a6;
    b6[14] = 9;
    match j % 4 {
        0 => (Ip::V4(Ip4 { src: [10, 9, (j % 250) as u8, 7], dst: [10, 9, 8, 6], ..Ip4::default() }), Ip::V4(Ip4 { src: [10, 9, 8, 6], dst: [10, 9, (j % 250) as u8, 7], ..Ip4::default() }), cport, sport),
        1 => (Ip::V4(Ip4 { src: [127, 0, 0, 1], dst: [127, 0, 0, 1], ..Ip4::default() }), Ip::V4(Ip4 { src: [127, 0, 0, 1], dst: [127, 0, 0, 1], ..Ip4::default() }), cport, sport),
        2 => (Ip::V6(crate::gen::frames::Ip6 { src: a6, dst: b6, ..Default::default() }), Ip::V6(crate::gen::frames::Ip6 { src: b6, dst: a6, ..Default::default() }), cport, sport),
        _ => (Ip::V6(crate::gen::frames::Ip6 { src: a6, dst: a6, ..Default::default() }), Ip::V6(crate::gen::frames::Ip6 { src: a6, dst: a6, ..Default::default() }), cport, sport),
    }
}

/// one connection per (signature, instantiation): SYN, a request, and - for response signatures - the conforming response
fn parallel_conns() -> Vec<(String, Vec<Vec<u8>>)> {
    let db = drive::default_db();
    let mut conns: Vec<(String, Vec<Vec<u8>>)> = vec![];
    let generic_request = b"GET / HTTP/1.1\r\nHost: example.test\r\nUser-Agent: probe/1.0\r\nAccept: */*\r\n\r\n".to_vec();
    let all_sigs: Vec<(bool, &dh::Signature)> = db.http_request.entries.iter().flat_map(|(_, s)| s.iter().map(|x| (true, x))).chain(db.http_response.entries.iter().flat_map(|(_, s)| s.iter().map(|x| (false, x)))).collect();
    for (request, sig) in all_sigs {
        for inst in http_instances(sig, request) {
            let j = conns.len();
            let (cip, sip, cp, sp) = endpoints(j);
            let mut frames = vec![frame(Link::Ether, &cip, &Tcp { sport: cp, dport: sp, seq: 10, flags: fr::SYN, ..Tcp::default() })];
            let req = if request { http_message(&inst, true) } else { generic_request.clone() };
            frames.push(frame(Link::Ether, &cip, &Tcp { sport: cp, dport: sp, seq: 11, ack: 1, flags: fr::ACK | fr::PSH, payload: req, ..Tcp::default() }));
            if !request {
                frames.push(frame(Link::Ether, &sip, &Tcp { sport: sp, dport: cp, seq: 500, ack: 11, flags: fr::ACK | fr::PSH, payload: http_message(&inst, false), ..Tcp::default() }));
            }
            conns.push((format!("{}`{}` {}", if request { "request " } else { "response " }, sig, inst.class), frames));
        }
    }
    conns
}
const PAR_BATCH: usize = 24;

/// Ok(false) = inconclusive (the pool's result channel never closed)
fn check_parallel_batch(conns: &[(String, Vec<Vec<u8>>)], bi: u64) -> Result<bool, Fail> {
    use crate::pool::PoolKind;
    let batch = match conns.chunks(PAR_BATCH).nth(bi as usize) {
        Some(b) => b,
        None => return Err(fail!("bad-replay", "no batch {bi}")),
    };
    // interleave: all SYNs, then all requests, then all responses
    let mut frames: Vec<Vec<u8>> = vec![];
    for round in 0..3 {
        for (_, f) in batch.iter() {
            if let Some(x) = f.get(round) {
                frames.push(x.clone());
            }
        }
    }
    let mut hs = HttpState::new(1000);
    let mut reference: Vec<(String, String)> = vec![];
    for f in &frames {
        if let Ok(r) = hs.feed(f, true) {
            reference.extend(drive::http_keyed(&r));
        }
    }
    let workers = 2 + (bi as usize % 6);
    let got = match crate::props::c10::api_parallel(PoolKind::Http, &frames, 1000, workers, frames.len() + 64, 1 + (bi as usize * 7) % 32, 5) {
        Ok(Some(g)) => g,
        Ok(None) => return Ok(false),
        Err(e) => return Err(fail!("parallel-mode:setup", "{e}")),
    };
    let (mut a, mut b) = (reference.clone(), got.clone());
    a.sort();
    b.sort();
    if a != b {
        let missing: Vec<&(String, String)> = a.iter().filter(|x| !b.contains(x)).collect();
        let extra: Vec<&(String, String)> = b.iter().filter(|x| !a.contains(x)).collect();
        return Err(fail!("parallel-mode:signature-reached-sequentially-but-not-in-parallel-mode", "batch {bi} ({} connections, e.g. {}), {workers} workers: sequential {} results, parallel mode {}\nmissing {}\nextra   {}", batch.len(), batch[0].0, a.len(), b.len(), crate::engine::truncate(&format!("{:?}", missing.first()), 400), crate::engine::truncate(&format!("{:?}", extra.first()), 400)));
    }
    Ok(true)
}

pub fn run_parallel_mode(ctx: &Ctx) {
    let conns = parallel_conns();
    let nb = conns.chunks(PAR_BATCH).count() as u64;
    ctx.run_indexed(
        "http-signatures-parallel-mode",
        "every HTTP request / response signature of p0f.fp x its instantiation classes, one connection each (SYN, request, conforming response), with the address and port choice varied per connection (distinct IPv4 hosts, one IPv4 host talking to itself, distinct IPv6 hosts, one IPv6 host talking to itself; four server ports), 24 connections per capture, through HuginnNetHttp parallel mode (with_config, 2..7 workers, init_pool, analyze_pcap); oracle: the labels, qualities and signatures the sequential HTTP analyzer reports for the same capture (whose labels the sub-check http-signatures judges); non-trivial: every batch (same-host and IPv6 connections in each)",
        true,
        nb,
        |bi, st| {
            st.evals += conns.chunks(PAR_BATCH).nth(bi as usize).map(|b| b.len()).unwrap_or(0) as u64;
            st.nontrivial(&bi);
            match check_parallel_batch(&conns, bi) {
                Ok(true) => {}
                Ok(false) => {
                    st.class("result-channel-not-closed(inconclusive)");
                    st.discards += 1;
                }
                Err(f) => st.fail(f, json!({"batch": bi})),
            }
            if bi % 5 == 0 {
                st.sample(|| json!({"batch": bi, "workers": 2 + (bi as usize % 6)}));
            }
        },
    );
}

// ------------------------------------------------------------------------------------------------
// generated databases, built outside the catalogued failure classes: every failure is a violation
// ------------------------------------------------------------------------------------------------
use crate::gen::sig::{OptS, TcpSigS, TtlS, WinS};
use proptest::prelude::*;

const GEN_LAYOUTS: [&[OptS]; 5] = [
    &[OptS::Mss],
    &[OptS::Mss, OptS::Nop, OptS::Ws],
    &[OptS::Mss, OptS::Sok, OptS::Ts, OptS::Nop, OptS::Ws],
    &[OptS::Mss, OptS::Nop, OptS::Nop, OptS::Sok],
    &[OptS::Mss, OptS::Nop, OptS::Ws, OptS::Nop, OptS::Nop, OptS::Ts],
];
/// quirk lists in the order the analyzer emits them (IP header, TCP header, options)
/// ... and the same sets in other orders (p0f reads the quirk field as a set)
const GEN_QUIRKS: [&[u8]; 10] = [&[], &[0, 1], &[0], &[2], &[0, 1, 11], &[3, 0, 1], &[1, 0], &[11, 1, 0], &[0, 1, 3], &[0, 11, 1]];

pub fn gen_sig() -> impl Strategy<Value = TcpSigS> {
    (
        prop_oneof![Just(4u8), Just(6u8), Just(0u8)],
        prop_oneof![Just(64u8), Just(128u8), Just(255u8), Just(32u8)],
        proptest::option::weighted(0.4, prop_oneof![Just(1460u16), Just(1380u16), Just(536u16)]),
        prop_oneof![
            2 => Just(WinS::Any),
            2 => (1u8..60).prop_map(WinS::Mss),
            1 => (1u8..30).prop_map(WinS::Mtu),
            2 => (1000u16..60000).prop_map(|v| WinS::Value(v | 1)),
            1 => prop_oneof![Just(256u16), Just(512u16), Just(1024u16), Just(2048u16), Just(4096u16)].prop_map(WinS::Mod),
        ],
        proptest::option::weighted(0.5, 0u8..=14),
        0usize..5,
        0usize..10,
        0u8..3,
    )
        .prop_map(|(ver, ittl, mss, wsize, wscale, l, q, pclass)| {
            let olayout = GEN_LAYOUTS[l].to_vec();
            let has_ws = olayout.contains(&OptS::Ws);
            // quirk lists that only make sense for IPv4 are kept for `*` / 4 signatures; ecn works for both
            let mut quirks = GEN_QUIRKS[q].to_vec();
            if ver == 6 {
                quirks.retain(|x| ![0u8, 1, 2, 4].contains(x));
            }
            TcpSigS { ver, ittl: TtlS::Value(ittl), olen: 0, mss, wsize, wscale: if has_ws { wscale } else { None }, olayout, quirks, pclass }
        })
}

/// the single form the window of an instance can be expressed in, or None when several divisors apply
/// (p0f's own detect_win_multi answers such windows by a fixed priority, so they conform to one of the forms only)
fn unambiguous_form(win: u16, mss: Option<u16>, has_ts: bool, v4: bool) -> Option<String> {
    let acc = crate::model::tcp::window_acceptable(win, mss, has_ts, v4);
    if acc.len() == 1 {
        acc.into_iter().next()
    } else {
        None
    }
}

#[derive(Clone, Debug, serde::Serialize, serde::Deserialize, Hash)]
pub struct GenDb {
    pub labels: Vec<Vec<TcpSigS>>,
    pub response: bool,
}

pub fn check_generated(c: &GenDb, st: &mut Stats) -> Result<(), Fail> {
    use huginn_net_db::db::FingerprintCollection;
    use huginn_net_db::{Database, Label, Type};
    let entries: Vec<(Label, Vec<dt::Signature>)> = c.labels.iter().enumerate().map(|(i, sigs)| (Label { ty: Type::Specified, class: Some("unix".into()), name: format!("OS{i}"), flavor: Some(format!("f{i}")) }, sigs.iter().map(|s| s.db()).collect())).collect();
    // the other table holds the same signatures under other labels: a lookup in the wrong table shows
    let other: Vec<(Label, Vec<dt::Signature>)> = entries.iter().map(|(l, s)| (Label { name: format!("WRONG-TABLE-{}", l.name), ..l.clone() }, s.clone())).collect();
    let (rq, rs) = if c.response { (other, entries.clone()) } else { (entries.clone(), other) };
    let db = Database { classes: vec![], mtu: vec![], ua_os: vec![], tcp_request: FingerprintCollection::new(rq), tcp_response: FingerprintCollection::new(rs), http_request: Default::default(), http_response: Default::default() };
    let matcher = huginn_net_tcp::SignatureMatcher::new(&db);
    for (li, (_lab, sigs)) in entries.iter().enumerate() {
        for (si, sig) in sigs.iter().enumerate() {
            for inst in tcp_instances(sig, c.response) {
                // steer away from the catalogued class: the window must be observed in the signature's own form
                let has_ts = sig.olayout.contains(&dt::TcpOption::TS);
                let form = unambiguous_form(inst.window, inst.mss, has_ts, inst.v4);
                let sig_form = format!("{}", sig.wsize);
                if sig_form != "*" && form.as_deref() != Some(sig_form.as_str()) {
                    st.class("steered-away:window-expressible-in-another-form");
                    continue;
                }
                if !tcp_conforms(&inst, sig) {
                    return Err(fail!("harness:generated-instance-does-not-conform", "{} class {}", sig, inst.class));
                }
                st.evals += 1;
                st.nontrivial(&(c, li, si, &inst.class));
                let f = tcp_frame(&inst, c.response);
                let mut tracker = ttl_cache::TtlCache::new(4);
                drive::set_clock(Some(1_000_000));
                use huginn_net_tcp::packet_parser::{parse_packet, IpPacket};
                let res = match parse_packet(&f) {
                    IpPacket::Ipv4(ip) => huginn_net_tcp::process_ipv4_packet(&ip, &mut tracker, Some(&matcher)),
                    IpPacket::Ipv6(ip) => huginn_net_tcp::process_ipv6_packet(&ip, &mut tracker, Some(&matcher)),
                    IpPacket::None => return Err(fail!("generated:frame-not-decoded", "{}", crate::engine::hex(&f))),
                };
                let mut observed = String::new();
                let got: Option<String> = match res {
                    Ok(r) => {
                        observed = if c.response { r.syn_ack.as_ref().map(|x| x.sig.to_string()) } else { r.syn.as_ref().map(|x| x.sig.to_string()) }.unwrap_or_default();
                        let m = if c.response { r.syn_ack.as_ref().map(|x| &x.os_matched) } else { r.syn.as_ref().map(|x| &x.os_matched) };
                        m.and_then(|m| m.os.as_ref().map(|o| o.name.clone()))
                    }
                    Err(_) => None,
                };
                let mut acceptable: BTreeSet<String> = BTreeSet::new();
                acceptable.insert(format!("OS{li}"));
                'outer: for (l2, (_lb, sg)) in entries.iter().enumerate() {
                    for (s2, g) in sg.iter().enumerate() {
                        if l2 == li && s2 == si {
                            break 'outer;
                        }
                        if tcp_conforms(&inst, g) {
                            acceptable.insert(format!("OS{l2}"));
                        }
                    }
                }
                if !got.as_ref().map(|g| acceptable.contains(g)).unwrap_or(false) {
                    return Err(fail!("generated-database:signature-not-reached", "label #{li} sig #{si} `{}` class {}: observed `{}`, best match {:?}, acceptable {:?}", sig, inst.class, observed, got, acceptable));
                }
            }
        }
    }
    Ok(())
}

pub fn run_generated(ctx: &Ctx) {
    let n = ctx.tier.pick(6_000, 150_000);
    ctx.run_prop(
        "generated-tcp-databases",
        "proptest TCP databases in the p0f format (1..12 labels x 1..3 signatures: version 4/6/*, initial TTL 32/64/128/255, MSS fixed or `*`, every window form, window scale fixed or `*`, 5 option layouts without eol, 6 quirk lists in emission order, payload class) built OUTSIDE the catalogued failure classes; every signature x every instantiation class as a real SYN / SYN+ACK through the TCP analyzer with that database; instances whose window would be observed in another form are steered away (counted); any other miss is a violation; non-trivial: every instance",
        n,
        || (proptest::collection::vec(proptest::collection::vec(gen_sig(), 1..4), 1..12), any::<bool>()).prop_map(|(labels, response)| GenDb { labels, response }),
        |c: &GenDb, st: &mut Stats| {
            st.evals = st.evals.saturating_sub(1);
            st.sample(|| json!({"labels": c.labels.len(), "first": format!("{}", c.labels[0][0].db())}));
            check_generated(c, st)
        },
    );
}

// ---- generated HTTP databases -------------------------------------------------------------------
use crate::gen::sig::{HdrS, HttpSigS};

#[derive(Clone, Debug, serde::Serialize, serde::Deserialize, Hash)]
pub struct GenHttpDb {
    /// signatures with pairwise different decisive version (1.0 / 1.1) or a single any-version one
    pub sigs: Vec<HttpSigS>,
    pub request: bool,
}

const REQ_POOL: [&str; 10] = ["Host", "User-Agent", "Accept", "Accept-Language", "Accept-Encoding", "Connection", "Keep-Alive", "X-Requested-With", "Cookie", "Referer"];
const RSP_POOL: [&str; 9] = ["Server", "Date", "Content-Type", "Connection", "Keep-Alive", "Accept-Ranges", "X-Powered-By", "Content-Length", "ETag"];
const NO_VALUE: [&str; 5] = ["Host", "User-Agent", "Server", "Date", "Content-Type"];

fn gen_http_sig(request: bool, version: u8) -> impl Strategy<Value = HttpSigS> {
    let pool: Vec<&'static str> = if request { REQ_POOL.to_vec() } else { RSP_POOL.to_vec() };
    let n = pool.len();
    (Just(pool).prop_shuffle(), 1usize..7, proptest::collection::vec((0u8..4, 0u8..10), n), 0usize..3, 0u8..3).prop_map(move |(names, k, flags, nabs, sw)| {
        let swh = if request { "User-Agent" } else { "Server" };
        let k = k.min(names.len());
        let has_sw = names[..k].contains(&swh);
        let expsw = if has_sw { ["", "Firefox/", "nginx"][sw as usize].to_string() } else { String::new() };
        let horder: Vec<HdrS> = names[..k]
            .iter()
            .zip(flags.iter())
            .map(|(nm, (o, v))| HdrS {
                optional: *o == 0 && !(*nm == swh && !expsw.is_empty()),
                name: nm.to_string(),
                value: if *v < 3 && !NO_VALUE.contains(nm) { Some(["keep-alive", "gzip", "en"][*v as usize].to_string()) } else { None },
            })
            .collect();
        let habsent: Vec<HdrS> = names[k..].iter().take(nabs).map(|nm| HdrS { optional: false, name: nm.to_string(), value: None }).collect();
        HttpSigS { version, horder, habsent, expsw }
    })
}

pub fn check_generated_http(c: &GenHttpDb, st: &mut Stats) -> Result<(), Fail> {
    use huginn_net_db::db::FingerprintCollection;
    use huginn_net_db::{Database, Label, Type};
    let mk = |prefix: &str| -> Vec<(Label, Vec<dh::Signature>)> { c.sigs.iter().enumerate().map(|(i, s)| (Label { ty: Type::Specified, class: None, name: format!("{prefix}{i}"), flavor: None }, vec![s.db()])).collect() };
    let own = mk("SW");
    let other = mk("WRONG-TABLE-");
    let (rq, rs) = if c.request { (own.clone(), other) } else { (other, own.clone()) };
    let db = Database { classes: vec![], mtu: vec![], ua_os: vec![], tcp_request: Default::default(), tcp_response: Default::default(), http_request: FingerprintCollection::new(rq), http_response: FingerprintCollection::new(rs) };
    for (i, (_l, sigs)) in own.iter().enumerate() {
        let sig = &sigs[0];
        for inst in http_instances(sig, c.request) {
            if !inst.class.contains("sw-exact") {
                st.class("steered-away:software-string-embedded (K-C12-expsw)");
                continue;
            }
            // an instance another entry of this database also describes is outside the sub-check (versions are disjoint by construction)
            if own.iter().enumerate().any(|(j, (_, g))| j != i && http_conforms(&inst, &g[0], c.request)) {
                return Err(fail!("harness:generated-http-signatures-overlap", "{}", sig));
            }
            st.evals += 1;
            st.nontrivial(&(c, i, &inst.class));
            let msg = http_message(&inst, c.request);
            let mut hs = HttpState::new(8);
            let cip = Ip::V4(Ip4 { src: [10, 9, 8, 7], dst: [10, 9, 8, 6], ..Ip4::default() });
            let sip = Ip::V4(Ip4 { src: [10, 9, 8, 6], dst: [10, 9, 8, 7], ..Ip4::default() });
            let _ = hs.feed_db(&frame(Link::Ether, &cip, &Tcp { sport: 41000, dport: 80, seq: 10, flags: fr::SYN, ..Tcp::default() }), Some(&db));
            let pkt = if c.request { frame(Link::Ether, &cip, &Tcp { sport: 41000, dport: 80, seq: 11, ack: 1, flags: fr::ACK | fr::PSH, payload: msg.clone(), ..Tcp::default() }) } else { frame(Link::Ether, &sip, &Tcp { sport: 80, dport: 41000, seq: 500, ack: 11, flags: fr::ACK | fr::PSH, payload: msg.clone(), ..Tcp::default() }) };
            let (got, observed): (Option<String>, String) = match hs.feed_db(&pkt, Some(&db)) {
                Ok(r) => {
                    if c.request {
                        (r.http_request.as_ref().and_then(|q| q.browser_matched.browser.as_ref().map(|b| b.name.clone())), r.http_request.as_ref().map(|q| q.sig.to_string()).unwrap_or_default())
                    } else {
                        (r.http_response.as_ref().and_then(|q| q.web_server_matched.web_server.as_ref().map(|b| b.name.clone())), r.http_response.as_ref().map(|q| q.sig.to_string()).unwrap_or_default())
                    }
                }
                Err(e) => (None, e),
            };
            if got.as_deref() != Some(format!("SW{i}").as_str()) {
                return Err(fail!("generated-http-database:signature-not-reached", "sig #{i} `{}` class {}: message {:?} observed `{}` best match {:?}", sig, inst.class, String::from_utf8_lossy(&msg), observed, got));
            }
        }
    }
    Ok(())
}

pub fn run_generated_http(ctx: &Ctx) {
    let n = ctx.tier.pick(30_000, 600_000);
    ctx.run_prop(
        "generated-http-databases",
        "proptest HTTP databases in the p0f format: either one any-version signature or a 1.0 and a 1.1 signature (decisively different, so no entry shadows another), request or response table, the other table holding the same signatures under other labels; 1..6 ordered headers from a 10 / 9 name pool with optional marks and value fragments, 0..2 absent headers, software token or none; every instantiation class (version, optional headers in / out, values exact / embedded, software string exact) as a real message through the HTTP analyzer with that database; best match must be the signature's own label; the embedded-software class is steered away (K-C12-expsw, counted); non-trivial: every instance",
        n,
        || {
            any::<bool>().prop_flat_map(|request| {
                prop_oneof![
                    gen_http_sig(request, 9).prop_map(|s| vec![s]),
                    (gen_http_sig(request, 0), gen_http_sig(request, 1)).prop_map(|(a, b)| vec![a, b]),
                    (gen_http_sig(request, 1), gen_http_sig(request, 0)).prop_map(|(a, b)| vec![a, b]),
                ]
                .prop_map(move |sigs| GenHttpDb { sigs, request })
            })
        },
        |c: &GenHttpDb, st: &mut Stats| {
            st.evals = st.evals.saturating_sub(1);
            st.sample(|| json!({"request": c.request, "first": format!("{}", c.sigs[0].db())}));
            check_generated_http(c, st)
        },
    );
}

pub fn replay(_ctx: &Ctx, sub: &str, input: &serde_json::Value) -> Result<(), Fail> {
    if sub == "generated-http-databases" {
        let c: GenHttpDb = serde_json::from_value(input["value"].clone()).map_err(|e| fail!("bad-replay", "{e}"))?;
        let mut st = Stats::new();
        return check_generated_http(&c, &mut st);
    }
    if sub == "generated-tcp-databases" {
        let c: GenDb = serde_json::from_value(input["value"].clone()).map_err(|e| fail!("bad-replay", "{e}"))?;
        let mut st = Stats::new();
        return check_generated(&c, &mut st);
    }
    if sub == "http-signatures-parallel-mode" {
        let bi = input["value"]["batch"].as_u64().or_else(|| input["input"]["batch"].as_u64()).or_else(|| input["batch"].as_u64()).ok_or_else(|| fail!("bad-replay", "no batch index"))?;
        return check_parallel_batch(&parallel_conns(), bi).map(|_| ());
    }
    Err(fail!("bad-replay", "C13 enumerates the bundled signatures deterministically: re-run the check; the failing (line, class) is in the VIOLATION detail"))
}
