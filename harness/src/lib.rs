#[macro_use]
pub mod engine;
pub mod drive;
pub mod gen;
pub mod model;
pub mod props;
pub mod pool;
pub mod alloc;
