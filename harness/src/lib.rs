pub mod engine;
pub mod gen;
pub mod model;
pub mod props;
