//! Counting allocator (per-thread counters): bytes allocated (cumulative) and bytes live.
use std::alloc::{GlobalAlloc, Layout, System};
use std::cell::Cell;

thread_local! {
    static ALLOCATED: Cell<u64> = const { Cell::new(0) };
    static LIVE: Cell<i64> = const { Cell::new(0) };
}

/// process-wide live-byte counter, off by default (one shared cache line would slow the parallel checks down); switched on only
/// by the pool memory sub-check of C11, which runs alone
static GLOBAL_ON: std::sync::atomic::AtomicBool = std::sync::atomic::AtomicBool::new(false);
static GLOBAL_LIVE: std::sync::atomic::AtomicI64 = std::sync::atomic::AtomicI64::new(0);
pub fn global_enable(on: bool) {
    GLOBAL_ON.store(on, std::sync::atomic::Ordering::SeqCst);
}
pub fn global_on() -> bool {
    GLOBAL_ON.load(std::sync::atomic::Ordering::Relaxed)
}
pub fn global_live() -> i64 {
    GLOBAL_LIVE.load(std::sync::atomic::Ordering::SeqCst)
}
#[inline]
fn g(delta: i64) {
    if GLOBAL_ON.load(std::sync::atomic::Ordering::Relaxed) {
        GLOBAL_LIVE.fetch_add(delta, std::sync::atomic::Ordering::Relaxed);
    }
}

pub struct Counting;

unsafe impl GlobalAlloc for Counting {
    unsafe fn alloc(&self, l: Layout) -> *mut u8 {
        let _ = ALLOCATED.try_with(|c| c.set(c.get() + l.size() as u64));
        let _ = LIVE.try_with(|c| c.set(c.get() + l.size() as i64));
        g(l.size() as i64);
        System.alloc(l)
    }
    unsafe fn dealloc(&self, p: *mut u8, l: Layout) {
        let _ = LIVE.try_with(|c| c.set(c.get() - l.size() as i64));
        g(-(l.size() as i64));
        System.dealloc(p, l)
    }
    unsafe fn realloc(&self, p: *mut u8, l: Layout, new: usize) -> *mut u8 {
        let _ = ALLOCATED.try_with(|c| c.set(c.get() + new as u64));
        let _ = LIVE.try_with(|c| c.set(c.get() + new as i64 - l.size() as i64));
        g(new as i64 - l.size() as i64);
        System.realloc(p, l, new)
    }
}

pub fn allocated() -> u64 {
    ALLOCATED.with(|c| c.get())
}
pub fn live() -> i64 {
    LIVE.with(|c| c.get())
}
