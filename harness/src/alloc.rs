//! Counting allocator (per-thread counters): bytes allocated (cumulative) and bytes live.
use std::alloc::{GlobalAlloc, Layout, System};
use std::cell::Cell;

thread_local! {
    static ALLOCATED: Cell<u64> = const { Cell::new(0) };
    static LIVE: Cell<i64> = const { Cell::new(0) };
}

pub struct Counting;

unsafe impl GlobalAlloc for Counting {
    unsafe fn alloc(&self, l: Layout) -> *mut u8 {
        let _ = ALLOCATED.try_with(|c| c.set(c.get() + l.size() as u64));
        let _ = LIVE.try_with(|c| c.set(c.get() + l.size() as i64));
        System.alloc(l)
    }
    unsafe fn dealloc(&self, p: *mut u8, l: Layout) {
        let _ = LIVE.try_with(|c| c.set(c.get() - l.size() as i64));
        System.dealloc(p, l)
    }
    unsafe fn realloc(&self, p: *mut u8, l: Layout, new: usize) -> *mut u8 {
        let _ = ALLOCATED.try_with(|c| c.set(c.get() + new as u64));
        let _ = LIVE.try_with(|c| c.set(c.get() + new as i64 - l.size() as i64));
        System.realloc(p, l, new)
    }
}

pub fn allocated() -> u64 {
    ALLOCATED.with(|c| c.get())
}
pub fn live() -> i64 {
    LIVE.with(|c| c.get())
}
