//! Reference JA4 computed from the *generated* ClientHello structure per the FoxIO specification.
use crate::gen::tls::{is_grease, Ext, Hello};
use sha2::{Digest, Sha256};

#[derive(Clone, Debug)]
pub struct Ja4Ref {
    /// acceptable values of the a-part (several only when the ALPN rule has published variants)
    pub a_variants: Vec<String>,
    pub b_sorted: String,
    pub b_orig: String,
    pub c_sorted: String,
    pub c_orig: String,
    pub version: &'static str,
    pub sni_flag: char,
    pub strict_alpn: bool,
}

pub fn hash12(s: &str) -> String {
    if s.is_empty() {
        return "000000000000".to_string();
    }
    let d = Sha256::digest(s.as_bytes());
    let h: String = d.iter().map(|b| format!("{:02x}", b)).collect();
    h[..12].to_string()
}

pub fn version_code(v: u16) -> &'static str {
    match v {
        0x0304 => "13",
        0x0303 => "12",
        0x0302 => "11",
        0x0301 => "10",
        0x0300 => "s3",
        0x0002 => "s2",
        _ => "00",
    }
}

fn hex4(v: &[u16]) -> String {
    v.iter().map(|c| format!("{:04x}", c)).collect::<Vec<_>>().join(",")
}

pub fn first_alpn(h: &Hello) -> Option<Option<Vec<u8>>> {
    // Some(None): extension present but list empty
    for e in h.exts() {
        if let Ext::Alpn(list) = e {
            return Some(list.first().cloned());
        }
    }
    None
}

pub fn reference(h: &Hello) -> Ja4Ref {
    let exts = h.exts();
    // version
    let mut version_val = h.legacy_version;
    for e in exts {
        if let Ext::SupportedVersions(vs) = e {
            // highest non-GREASE entry; an empty / all-GREASE list leaves nothing to choose: "00"
            let best = vs.iter().copied().filter(|v| !is_grease(*v)).max();
            version_val = best.unwrap_or(0);
        }
    }
    let version = version_code(version_val);
    let sni_flag = if exts.iter().any(|e| matches!(e, Ext::Sni(_))) { 'd' } else { 'i' };
    let ciphers: Vec<u16> = h.ciphers.iter().copied().filter(|c| !is_grease(*c)).collect();
    let ext_types: Vec<u16> = exts.iter().map(|e| e.typ()).filter(|t| !is_grease(*t)).collect();
    let cc = ciphers.len().min(99);
    let ec = ext_types.len().min(99);
    // ALPN characters
    let (alpn_variants, strict_alpn): (Vec<String>, bool) = match first_alpn(h) {
        None | Some(None) => (vec!["00".into()], true),
        Some(Some(v)) if v.is_empty() => (vec!["00".into()], true),
        Some(Some(v)) => {
            let f = v[0];
            let l = v[v.len() - 1];
            let alnum = |b: u8| b.is_ascii_alphanumeric();
            if v.len() >= 2 && alnum(f) && alnum(l) {
                (vec![format!("{}{}", f as char, l as char)], true)
            } else {
                // published variants of the edge rule: same char twice / '0' filler for 1-char values;
                // hex digits of first/last byte, '9' replacement or "99" for non-alphanumeric ends
                let mut vs = vec![];
                let hexs = format!("{:02x}", f);
                let hexl = format!("{:02x}", l);
                let c = |b: u8| if b.is_ascii() { (b as char).to_string() } else { "9".to_string() };
                // byte-based variants
                vs.push(format!("{}{}", c(f), c(l)));
                vs.push(format!("{}{}", &hexs[..1], &hexl[1..]));
                vs.push("99".to_string());
                if v.len() == 1 {
                    vs.push(format!("{}0", c(f)));
                    vs.push(format!("{}{}", c(f), c(f)));
                }
                // character-based variants (value decoded lossily as UTF-8; non-ASCII -> '9')
                let text = String::from_utf8_lossy(&v).into_owned();
                let cc = |ch: char| if ch.is_ascii() { ch.to_string() } else { "9".to_string() };
                let chars: Vec<char> = text.chars().collect();
                if let (Some(a), Some(z)) = (chars.first(), chars.last()) {
                    vs.push(format!("{}{}", cc(*a), cc(*z)));
                    if chars.len() == 1 {
                        vs.push(format!("{}0", cc(*a)));
                    }
                }
                (vs, false)
            }
        }
    };
    let a_variants: Vec<String> = alpn_variants.iter().map(|al| format!("t{}{}{:02}{:02}{}", version, sni_flag, cc, ec, al)).collect();
    let mut sorted_c = ciphers.clone();
    sorted_c.sort_unstable();
    let sigalgs: Vec<u16> = exts
        .iter()
        .find_map(|e| if let Ext::SigAlgs(v) = e { Some(v.clone()) } else { None })
        .unwrap_or_default()
        .into_iter()
        .filter(|v| !is_grease(*v))
        .collect();
    let mut sorted_e: Vec<u16> = ext_types.iter().copied().filter(|t| *t != 0 && *t != 16).collect();
    sorted_e.sort_unstable();
    let join_c = |e: &[u16]| -> String {
        let es = hex4(e);
        let ss = hex4(&sigalgs);
        if ss.is_empty() {
            es
        } else {
            format!("{}_{}", es, ss)
        }
    };
    Ja4Ref {
        a_variants,
        b_sorted: hex4(&sorted_c),
        b_orig: hex4(&ciphers),
        c_sorted: join_c(&sorted_e),
        c_orig: join_c(&ext_types),
        version,
        sni_flag,
        strict_alpn,
    }
}

impl Ja4Ref {
    /// acceptable `full` strings for the sorted (JA4) or original-order (JA4_o) variant
    pub fn full(&self, original: bool) -> Vec<String> {
        let (b, c) = if original { (&self.b_orig, &self.c_orig) } else { (&self.b_sorted, &self.c_sorted) };
        // the extension part of c: the all-zero value applies when there are no extensions at all
        let c_hash = if c.is_empty() { "000000000000".to_string() } else { hash12(c) };
        self.a_variants.iter().map(|a| format!("{}_{}_{}", a, hash12(b), c_hash)).collect()
    }
    pub fn raw(&self, original: bool) -> Vec<String> {
        let (b, c) = if original { (&self.b_orig, &self.c_orig) } else { (&self.b_sorted, &self.c_sorted) };
        self.a_variants.iter().map(|a| format!("{}_{}_{}", a, b, c)).collect()
    }
}
