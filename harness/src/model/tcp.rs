//! Reference renderer: p0f TCP signature from *generated header values* (never parsed back from bytes).
use crate::gen::frames::{self as fr, Ip, Tcp};
use serde::{Deserialize, Serialize};
use std::collections::BTreeSet;

/// One well-formed TCP option as chosen by the generator.
#[derive(Clone, Debug, PartialEq, Eq, Hash, Serialize, Deserialize)]
pub enum OptItem {
    Eol,
    Nop,
    Mss(u16),
    Ws(u8),
    Sok,
    /// SACK with n blocks (n 0..=4)
    Sack(u8),
    Ts(u32, u32),
    /// unknown kind (not 0,1,2,3,4,5,8) with data (well-formed length)
    Unknown(u8, Vec<u8>),
}

impl OptItem {
    pub fn bytes(&self) -> Vec<u8> {
        match self {
            OptItem::Eol => fr::opt::eol(),
            OptItem::Nop => fr::opt::nop(),
            OptItem::Mss(v) => fr::opt::mss(*v),
            OptItem::Ws(s) => fr::opt::ws(*s),
            OptItem::Sok => fr::opt::sok(),
            OptItem::Sack(n) => fr::opt::sack(*n),
            OptItem::Ts(a, b) => fr::opt::ts(*a, *b),
            OptItem::Unknown(k, d) => fr::opt::unknown(*k, d),
        }
    }
    pub fn token(&self, after: usize) -> String {
        match self {
            OptItem::Eol => format!("eol+{}", after),
            OptItem::Nop => "nop".into(),
            OptItem::Mss(_) => "mss".into(),
            OptItem::Ws(_) => "ws".into(),
            OptItem::Sok => "sok".into(),
            OptItem::Sack(_) => "sack".into(),
            OptItem::Ts(..) => "ts".into(),
            OptItem::Unknown(k, _) => format!("?{}", k),
        }
    }
}

pub fn encode_opts(items: &[OptItem]) -> Vec<u8> {
    items.iter().flat_map(|i| i.bytes()).collect()
}

/// What the option area defines under a walk that stops (p0f) or does not stop (known finding) at EOL.
#[derive(Clone, Debug, Default, PartialEq)]
pub struct OptView {
    pub layout: Vec<String>,
    pub mss: Option<u16>,
    pub wscale: Option<u8>,
    pub has_ts: bool,
    pub quirks: BTreeSet<&'static str>,
    /// TSval of the last timestamp option (for uptime models)
    pub tsval: Option<u32>,
}

/// Walk a *well-formed* option sequence. `tcp_type_is_syn`: flags&(SYN|ACK|FIN|RST)==SYN.
pub fn walk_opts(items: &[OptItem], tcp_type_is_syn: bool, stop_at_eol: bool) -> OptView {
    let mut v = OptView::default();
    let total: usize = items.iter().map(|i| i.bytes().len()).sum();
    let mut consumed = 0usize;
    for it in items {
        consumed += it.bytes().len();
        let after = total - consumed;
        v.layout.push(it.token(after));
        match it {
            OptItem::Eol => {
                // non-zero bytes after the EOL
                let rest: Vec<u8> = encode_opts(items)[consumed..].to_vec();
                if rest.iter().any(|b| *b != 0) {
                    v.quirks.insert("opt+");
                }
                if stop_at_eol {
                    break;
                }
            }
            OptItem::Mss(m) => v.mss = Some(*m),
            OptItem::Ws(s) => {
                v.wscale = Some(*s);
                if *s > 14 {
                    v.quirks.insert("exws");
                }
            }
            OptItem::Ts(a, b) => {
                v.has_ts = true;
                v.tsval = Some(*a);
                if *a == 0 {
                    v.quirks.insert("ts1-");
                }
                if tcp_type_is_syn && *b != 0 {
                    v.quirks.insert("ts2+");
                }
            }
            _ => {}
        }
    }
    v
}

pub fn ittl(ttl: u8) -> String {
    if ttl == 0 {
        return "0-".into();
    }
    let initial: u16 = if ttl <= 32 {
        32
    } else if ttl <= 64 {
        64
    } else if ttl <= 128 {
        128
    } else {
        255
    };
    let d = initial - ttl as u16;
    if d <= 30 {
        format!("{}+{}", ttl, d)
    } else {
        format!("{}", ttl)
    }
}

/// Header-defined quirks (IP + TCP header, not options)
pub fn header_quirks(ip: &Ip, tcp: &Tcp) -> BTreeSet<&'static str> {
    let mut q = BTreeSet::new();
    match ip {
        Ip::V4(i) => {
            if i.tos & 0x03 != 0 {
                q.insert("ecn");
            }
            if i.flags & 0b100 != 0 {
                q.insert("0+");
            }
            if i.flags & 0b010 != 0 {
                q.insert("df");
                if i.id != 0 {
                    q.insert("id+");
                }
            } else if i.id == 0 {
                q.insert("id-");
            }
        }
        Ip::V6(i) => {
            if i.flow & 0xfffff != 0 {
                q.insert("flow");
            }
            if i.tclass & 0x03 != 0 {
                q.insert("ecn");
            }
        }
    }
    let f = tcp.flags;
    if f & (fr::ECE | fr::CWR) != 0 {
        q.insert("ecn");
    }
    if tcp.seq == 0 {
        q.insert("seq-");
    }
    if f & fr::ACK != 0 {
        if tcp.ack == 0 {
            q.insert("ack-");
        }
    } else if tcp.ack != 0 && f & fr::RST == 0 {
        // p0f: RSTs with "illegal" ACK numbers are ignored
        q.insert("ack+");
    }
    if f & fr::URG != 0 {
        q.insert("urgf+");
    } else if tcp.urg != 0 {
        q.insert("uptr+");
    }
    if f & fr::PSH != 0 {
        q.insert("pushf+");
    }
    q
}

/// p0f sanity filter: which flag bytes yield any signature at all
pub fn flags_accepted(flags: u8) -> bool {
    let t = flags & (fr::SYN | fr::ACK | fr::FIN | fr::RST);
    if t == 0 {
        return false;
    }
    if flags & fr::SYN != 0 && flags & (fr::FIN | fr::RST) != 0 {
        return false;
    }
    if flags & (fr::FIN | fr::RST) == (fr::FIN | fr::RST) {
        return false;
    }
    true
}

#[derive(Clone, Copy, Debug, PartialEq, Eq)]
pub enum Role {
    Client,
    Server,
    Neither,
    Rejected,
}
pub fn role(flags: u8) -> Role {
    if !flags_accepted(flags) {
        Role::Rejected
    } else if flags & fr::SYN != 0 && flags & fr::ACK == 0 {
        Role::Client
    } else if flags & fr::SYN != 0 && flags & fr::ACK != 0 {
        Role::Server
    } else {
        Role::Neither
    }
}

/// All window renderings the p0f signature language admits for (win, mss, ts, version).
/// Returns the set of acceptable Display strings. `raw` is acceptable only when nothing else is.
pub fn window_acceptable(win: u16, mss: Option<u16>, has_ts: bool, v4: bool) -> BTreeSet<String> {
    let mut acc = BTreeSet::new();
    let m = mss.unwrap_or(0);
    if win == 0 || m < 100 {
        acc.insert(format!("{}", win));
        return acc;
    }
    let w = win as u32;
    let try_div = |d: u32, tag: &str, acc: &mut BTreeSet<String>| {
        if d != 0 && w % d == 0 && w / d <= 255 {
            acc.insert(format!("{}*{}", tag, w / d));
        }
    };
    try_div(m as u32, "mss", &mut acc);
    if has_ts && m > 12 {
        try_div(m as u32 - 12, "mss", &mut acc);
    }
    // modulus: the largest documented power of two that divides
    for md in [4096u32, 2048, 1024, 512, 256] {
        if w % md == 0 {
            acc.insert(format!("%{}", md));
            break;
        }
    }
    let min_hdr: u32 = if v4 { 40 } else { 60 };
    try_div(1500, "mtu", &mut acc);
    try_div(1500 - min_hdr, "mtu", &mut acc);
    if has_ts {
        try_div(1500 - min_hdr - 12, "mtu", &mut acc);
    }
    try_div(m as u32 + min_hdr, "mtu", &mut acc);
    if acc.is_empty() {
        acc.insert(format!("{}", win));
    }
    acc
}

/// expected MTU for a SYN carrying an MSS option: MSS + minimal IP + TCP header sizes
pub fn mtu_expected(mss: u16, v4: bool) -> u16 {
    mss.saturating_add(if v4 { 40 } else { 60 })
}
