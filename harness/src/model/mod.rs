pub mod tcp;
pub mod ja4;
