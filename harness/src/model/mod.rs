pub mod tcp;
