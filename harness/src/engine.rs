//! Engine: seeded runner, counters/classification, shrinking -> replay files, evidence writer,
//! known-findings gate, watchdog.
use proptest::strategy::{Strategy, ValueTree};
use proptest::test_runner::{Config, RngAlgorithm, TestCaseError, TestError, TestRng, TestRunner};
use rayon::prelude::*;
use serde_json::{json, Value};
use std::collections::{BTreeMap, HashSet};
use std::fmt::Debug;
use std::hash::{Hash, Hasher};
use std::path::PathBuf;
use std::sync::atomic::{AtomicBool, AtomicU64, AtomicUsize, Ordering};
use std::sync::Mutex;
use std::time::Instant;

pub const VERIF_ROOT: &str = "/verif";

#[derive(Clone, Copy, Debug, PartialEq, Eq)]
pub enum Tier {
    Quick,
    Thorough,
}
impl Tier {
    pub fn name(self) -> &'static str {
        match self {
            Tier::Quick => "quick",
            Tier::Thorough => "thorough",
        }
    }
    /// pick a size by tier
    pub fn pick<T>(self, quick: T, thorough: T) -> T {
        match self {
            Tier::Quick => quick,
            Tier::Thorough => thorough,
        }
    }
}

/// A discrepancy between implementation and oracle.
#[derive(Clone, Debug)]
pub struct Fail {
    /// stable short description of *what* differs (field and direction) – used for known-finding matching
    pub what: String,
    /// human readable detail (expected / got)
    pub detail: String,
}
impl Fail {
    pub fn new(what: impl Into<String>, detail: impl Into<String>) -> Self {
        Fail { what: what.into(), detail: detail.into() }
    }
}

#[macro_export]
macro_rules! fail {
    ($what:expr, $($arg:tt)*) => {
        $crate::engine::Fail::new($what, format!($($arg)*))
    };
}

/// Per-thread statistics of one sub-check; merged at the end.
#[derive(Default)]
pub struct Stats {
    pub evals: u64,
    pub nontrivial: HashSet<u64>,
    pub classes: BTreeMap<String, u64>,
    pub samples: Vec<Value>,
    pub known_hits: BTreeMap<String, u64>,
    pub discards: u64,
    pub failures: Vec<(Fail, Value)>,
}
pub const MAX_SAMPLES: usize = 6;
pub const MAX_FAILS_PER_SUB: usize = 8;

impl Stats {
    pub fn new() -> Self {
        Self::default()
    }
    pub fn eval(&mut self) {
        self.evals += 1;
    }
    pub fn class(&mut self, c: &str) {
        *self.classes.entry(c.to_string()).or_insert(0) += 1;
    }
    /// Register a non-trivial case by the hash of something identifying it.
    pub fn nontrivial<H: Hash>(&mut self, h: &H) {
        let mut s = std::collections::hash_map::DefaultHasher::new();
        h.hash(&mut s);
        // bound the memory of the distinct-set: keep at most 4M hashes per thread
        if self.nontrivial.len() < 4_000_000 {
            self.nontrivial.insert(s.finish());
        }
    }
    pub fn sample(&mut self, f: impl FnOnce() -> Value) {
        if self.samples.len() < MAX_SAMPLES {
            self.samples.push(f());
        }
    }
    pub fn known(&mut self, key: &str) {
        *self.known_hits.entry(key.to_string()).or_insert(0) += 1;
    }
    pub fn fail(&mut self, f: Fail, input: Value) {
        if self.failures.len() < MAX_FAILS_PER_SUB && !self.failures.iter().any(|(g, _)| g.what == f.what) {
            self.failures.push((f, input));
        }
    }
    pub fn merge(mut self, other: Stats) -> Stats {
        self.evals += other.evals;
        self.discards += other.discards;
        if self.nontrivial.len() < other.nontrivial.len() {
            let mut o = other.nontrivial;
            o.extend(self.nontrivial.drain());
            self.nontrivial = o;
        } else {
            self.nontrivial.extend(other.nontrivial);
        }
        for (k, v) in other.classes {
            *self.classes.entry(k).or_insert(0) += v;
        }
        for (k, v) in other.known_hits {
            *self.known_hits.entry(k).or_insert(0) += v;
        }
        for s in other.samples {
            if self.samples.len() < MAX_SAMPLES {
                self.samples.push(s);
            }
        }
        for (f, i) in other.failures {
            self.fail(f, i);
        }
        self
    }
}

pub struct SubReport {
    pub name: String,
    pub stats: Stats,
    pub exhaustive: bool,
    pub rule: String,
    pub wall_s: f64,
}

#[derive(Clone, Debug)]
pub struct KnownEntry {
    pub property: String,
    pub key: String,
    pub status: String, // "known" | "fixed"
    pub what: String,
}

pub struct Ctx {
    pub id: String,
    pub tier: Tier,
    pub seed: u64,
    pub strict: bool,
    pub subs: Mutex<Vec<SubReport>>,
    pub known: Vec<KnownEntry>,
    pub start: Instant,
    pub assumptions: Mutex<Vec<String>>,
    pub extra: Mutex<BTreeMap<String, Value>>,
    pub only_sub: Option<String>,
    /// shrink iteration budget of the next run_prop calls (expensive checks lower it)
    pub shrink_iters: std::sync::atomic::AtomicU32,
}

pub fn fnv64(data: &[u8]) -> u64 {
    let mut h: u64 = 0xcbf29ce484222325;
    for b in data {
        h ^= *b as u64;
        h = h.wrapping_mul(0x100000001b3);
    }
    h
}

/// splitmix64 – the only PRNG used outside proptest (for exhaustive-domain sampling order and
/// deterministic derived seeds; every value is a pure function of VERIF_SEED).
#[derive(Clone)]
pub struct SplitMix(pub u64);
impl SplitMix {
    pub fn next(&mut self) -> u64 {
        self.0 = self.0.wrapping_add(0x9E3779B97F4A7C15);
        let mut z = self.0;
        z = (z ^ (z >> 30)).wrapping_mul(0xBF58476D1CE4E5B9);
        z = (z ^ (z >> 27)).wrapping_mul(0x94D049BB133111EB);
        z ^ (z >> 31)
    }
    pub fn below(&mut self, n: u64) -> u64 {
        if n == 0 {
            0
        } else {
            self.next() % n
        }
    }
    pub fn chance(&mut self, num: u64, den: u64) -> bool {
        self.below(den) < num
    }
    pub fn pick<'a, T>(&mut self, xs: &'a [T]) -> &'a T {
        &xs[self.below(xs.len() as u64) as usize]
    }
    pub fn bytes(&mut self, n: usize) -> Vec<u8> {
        (0..n).map(|_| self.next() as u8).collect()
    }
}

pub fn load_known(property: &str) -> Vec<KnownEntry> {
    let path = format!("{VERIF_ROOT}/known_findings.json");
    let text = match std::fs::read_to_string(&path) {
        Ok(t) => t,
        Err(_) => return vec![],
    };
    let v: Value = serde_json::from_str(&text).expect("known_findings.json must be valid JSON");
    let mut out = vec![];
    for e in v["findings"].as_array().cloned().unwrap_or_default() {
        if e["property"].as_str() == Some(property) {
            out.push(KnownEntry {
                property: property.to_string(),
                key: e["key"].as_str().unwrap_or("").to_string(),
                status: e["status"].as_str().unwrap_or("known").to_string(),
                what: e["what"].as_str().unwrap_or("").to_string(),
            });
        }
    }
    out
}

impl Ctx {
    pub fn new(id: &str, tier: Tier, seed: u64) -> Ctx {
        Ctx {
            id: id.to_string(),
            tier,
            seed,
            strict: false,
            subs: Mutex::new(vec![]),
            known: load_known(id),
            start: Instant::now(),
            assumptions: Mutex::new(vec![]),
            extra: Mutex::new(BTreeMap::new()),
            only_sub: std::env::var("VERIF_SUB").ok(),
            shrink_iters: std::sync::atomic::AtomicU32::new(1200),
        }
    }
    pub fn want(&self, sub: &str) -> bool {
        match &self.only_sub {
            Some(s) => s.split(',').any(|x| sub.contains(x)),
            None => true,
        }
    }
    /// Is `key` listed as a known (unfixed) finding?
    pub fn is_known(&self, key: &str) -> bool {
        !self.strict && self.known.iter().any(|e| e.key == key && e.status == "known")
    }
    pub fn assume(&self, s: &str) {
        let mut a = self.assumptions.lock().unwrap();
        if !a.iter().any(|x| x == s) {
            a.push(s.to_string());
        }
    }
    pub fn extra(&self, k: &str, v: Value) {
        self.extra.lock().unwrap().insert(k.to_string(), v);
    }
    pub fn sub_seed(&self, sub: &str, chunk: u64) -> u64 {
        let mut s = SplitMix(self.seed ^ fnv64(sub.as_bytes()) ^ fnv64(self.id.as_bytes()).rotate_left(17));
        let a = s.next();
        a ^ chunk.wrapping_mul(0x9E3779B97F4A7C15)
    }
    pub fn rng(&self, sub: &str, chunk: u64) -> SplitMix {
        SplitMix(self.sub_seed(sub, chunk))
    }
    pub fn push(&self, name: &str, rule: &str, exhaustive: bool, stats: Stats, t0: Instant) {
        let wall = t0.elapsed().as_secs_f64();
        eprintln!(
            "[{}] sub {:<28} evals={:<10} nontrivial={:<9} known_hits={:<7} fails={} ({:.1}s)",
            self.id,
            name,
            stats.evals,
            stats.nontrivial.len(),
            stats.known_hits.values().sum::<u64>(),
            stats.failures.len(),
            wall
        );
        self.subs.lock().unwrap().push(SubReport {
            name: name.to_string(),
            stats,
            exhaustive,
            rule: rule.to_string(),
            wall_s: wall,
        });
    }

    /// Run an exhaustive / indexed domain `0..n` in parallel. `f(index, &mut Stats)`.
    pub fn run_indexed(
        &self,
        name: &str,
        rule: &str,
        exhaustive: bool,
        n: u64,
        f: impl Fn(u64, &mut Stats) + Sync,
    ) {
        if !self.want(name) {
            return;
        }
        let t0 = Instant::now();
        let chunks: u64 = 256.min(n.max(1));
        let stats = (0..chunks)
            .into_par_iter()
            .fold(Stats::new, |mut st, c| {
                let lo = n * c / chunks;
                let hi = n * (c + 1) / chunks;
                for i in lo..hi {
                    watchdog_touch();
                    if let Err(p) = catch(|| f(i, &mut st)) {
                        st.fail(Fail::new(panic_key(&p), p), json!({"index": i}));
                    }
                }
                st
            })
            .reduce(Stats::new, Stats::merge);
        self.push(name, rule, exhaustive, stats, t0);
    }

    /// Run a proptest-driven sub-check: `cases` generated cases split over parallel chunks, each chunk
    /// with its own deterministic runner. The test returns Err(Fail) for an (unlisted) violation;
    /// the failing value is shrunk by proptest and saved as a replay.
    pub fn run_prop<T, S>(
        &self,
        name: &str,
        rule: &str,
        cases: u64,
        strat: impl Fn() -> S + Sync,
        test: impl Fn(&T, &mut Stats) -> Result<(), Fail> + Sync,
    ) where
        T: Debug + Clone + serde::Serialize,
        S: Strategy<Value = T>,
    {
        if !self.want(name) {
            return;
        }
        let t0 = Instant::now();
        let nchunks: u64 = if cases >= 64 { 32 } else { 1 };
        // expensive sub-checks (low shrink budget): once one chunk has found a violation the others stop early
        let expensive = self.shrink_iters.load(Ordering::Relaxed) < 100;
        let stop = AtomicBool::new(false);
        let stats = (0..nchunks)
            .into_par_iter()
            .map(|c| {
                let n = (cases * (c + 1) / nchunks - cases * c / nchunks) as u32;
                let seed = self.sub_seed(name, c);
                let mut seed32 = [0u8; 32];
                let mut sm = SplitMix(seed);
                for k in 0..4 {
                    seed32[k * 8..k * 8 + 8].copy_from_slice(&sm.next().to_le_bytes());
                }
                let config = Config {
                    cases: n,
                    failure_persistence: None,
                    max_shrink_iters: self.shrink_iters.load(Ordering::Relaxed),
                    // wall-clock cap on shrinking one failure (ms): a slow-to-shrink failure is still reported, only less minimal
                    max_shrink_time: 15_000,
                    max_global_rejects: 65536,
                    ..Config::default()
                };
                let mut runner =
                    TestRunner::new_with_rng(config, TestRng::from_seed(RngAlgorithm::ChaCha, &seed32));
                let st = std::cell::RefCell::new(Stats::new());
                let failed = std::cell::Cell::new(false);
                // the most recent failure seen while running / shrinking (used when the final value does not fail again: schedule-dependent checks)
                let last_fail: std::cell::RefCell<Option<Fail>> = std::cell::RefCell::new(None);
                let strategy = strat();
                let res = runner.run(&strategy, |v| {
                    watchdog_touch();
                    if expensive && !failed.get() && stop.load(Ordering::Relaxed) {
                        return Ok(());
                    }
                    // a panic inside the implementation (or the harness) is a failure of the case, not of the run
                    let r = if failed.get() {
                        let mut scratch = Stats::new();
                        catch(|| test(&v, &mut scratch)).unwrap_or_else(|p| Err(Fail::new(panic_key(&p), p)))
                    } else {
                        let mut s = st.borrow_mut();
                        s.eval();
                        catch(|| test(&v, &mut s)).unwrap_or_else(|p| Err(Fail::new(panic_key(&p), p)))
                    };
                    match r {
                        Ok(()) => Ok(()),
                        Err(f) => {
                            failed.set(true);
                            stop.store(true, Ordering::Relaxed);
                            let what = f.what.clone();
                            *last_fail.borrow_mut() = Some(f);
                            Err(TestCaseError::fail(what))
                        }
                    }
                });
                let mut st = st.into_inner();
                match res {
                    Ok(()) => {}
                    Err(TestError::Fail(_, v)) => {
                        let mut scratch = Stats::new();
                        let f = match catch(|| test(&v, &mut scratch)).unwrap_or_else(|p| Err(Fail::new(panic_key(&p), p))) {
                            Err(f) => f,
                            Ok(()) => match last_fail.borrow_mut().take() {
                                Some(f) => Fail::new(f.what, format!("{} [observed while running / shrinking; the saved value did not fail again when re-executed: the failure depends on the thread schedule]", f.detail)),
                                None => Fail::new("flaky", "shrunk value no longer fails (non-deterministic check?)"),
                            },
                        };
                        let input = json!({"seed": self.seed, "chunk": c, "value": serde_json::to_value(&v).unwrap_or(Value::Null), "debug": format!("{:?}", v)});
                        st.fail(f, input);
                    }
                    Err(TestError::Abort(reason)) => {
                        // generator health problem: not a violation
                        st.class(&format!("ABORT:{}", reason.message()));
                        st.discards += 1;
                    }
                }
                st
            })
            .reduce(Stats::new, Stats::merge);
        self.push(name, rule, false, stats, t0);
    }

    /// Finish: write replays + evidence, print lines, return the exit code.
    pub fn finish(&self) -> i32 {
        let subs = self.subs.lock().unwrap();
        let mut evals = 0u64;
        let mut nontrivial = 0u64;
        let mut violations = 0;
        let mut known_hits: BTreeMap<String, u64> = BTreeMap::new();
        let mut sub_json = vec![];
        let mut samples = vec![];
        let mut exhaustive_subdomains = vec![];
        let mut rules = vec![];
        let mut health_bad = false;
        let mut out_lines = vec![];
        for s in subs.iter() {
            evals += s.stats.evals;
            nontrivial += s.stats.nontrivial.len() as u64;
            for (k, v) in &s.stats.known_hits {
                *known_hits.entry(k.clone()).or_insert(0) += v;
            }
            if s.exhaustive {
                exhaustive_subdomains.push(s.name.clone());
            }
            rules.push(format!("[{}] {}", s.name, s.rule));
            for smp in s.stats.samples.iter().take(3) {
                samples.push(json!({"sub": s.name, "case": smp}));
            }
            for (k, _) in s.stats.classes.iter() {
                if k.starts_with("ABORT:") {
                    health_bad = true;
                }
            }
            for (f, input) in &s.stats.failures {
                violations += 1;
                let body = json!({
                    "property": self.id, "sub": s.name, "what": f.what, "detail": f.detail,
                    "tier": self.tier.name(), "input": input,
                });
                let text = serde_json::to_string_pretty(&body).unwrap();
                let h = fnv64(format!("{}{}", f.what, input).as_bytes());
                let dir = format!("{VERIF_ROOT}/replays/found");
                let _ = std::fs::create_dir_all(&dir);
                let path = format!("{dir}/{}-{}-{:016x}.json", self.id, sanitize(&s.name), h);
                let _ = std::fs::write(&path, text);
                out_lines.push(format!("VIOLATION property={} replay={}", self.id, path));
                eprintln!("[{}] violation in {}: {} :: {}", self.id, s.name, f.what, truncate(&f.detail, 500));
            }
            sub_json.push(json!({
                "name": s.name, "evaluations": s.stats.evals, "distinct_nontrivial": s.stats.nontrivial.len(),
                "exhaustive": s.exhaustive, "classes": s.stats.classes, "discards": s.stats.discards,
                "known_finding_hits": s.stats.known_hits, "wall_s": s.wall_s, "rule": s.rule,
            }));
        }
        // known findings: one line per listed key that was hit
        for e in &self.known {
            if e.status == "known" {
                if let Some(n) = known_hits.get(&e.key) {
                    println!("KNOWN-FINDING: property={} {} [{}] ({} cases this run)", self.id, e.what, e.key, n);
                }
            }
        }
        for l in &out_lines {
            println!("{l}");
        }
        let all_exhaustive = !subs.is_empty() && subs.iter().all(|s| s.exhaustive);
        let mut coverage = json!({
            "evaluations": evals,
            "distinct_nontrivial": nontrivial,
            "rule": rules.join(" || "),
            "samples": samples,
            "exhaustive": all_exhaustive,
            "exhaustive_subdomains": exhaustive_subdomains,
            "sub_checks": sub_json,
            "known_finding_hits": known_hits,
        });
        for (k, v) in self.extra.lock().unwrap().iter() {
            coverage[k] = v.clone();
        }
        let ev = json!({
            "property_id": self.id,
            "tier": self.tier.name(),
            "seed": self.seed,
            "level": "exploration",
            "coverage": coverage,
            "assumptions": *self.assumptions.lock().unwrap(),
            "wall_s": self.start.elapsed().as_secs_f64(),
            "violations": violations,
        });
        let _ = std::fs::create_dir_all(format!("{VERIF_ROOT}/evidence"));
        let path = format!("{VERIF_ROOT}/evidence/{}.json", self.id);
        std::fs::write(&path, serde_json::to_string_pretty(&ev).unwrap()).expect("write evidence");
        eprintln!(
            "[{}] tier={} seed={} evaluations={} distinct_nontrivial={} violations={} wall={:.1}s",
            self.id,
            self.tier.name(),
            self.seed,
            evals,
            nontrivial,
            violations,
            self.start.elapsed().as_secs_f64()
        );
        if violations > 0 {
            1
        } else if health_bad {
            eprintln!("[{}] generator health check failed (too many rejects) – inconclusive", self.id);
            2
        } else {
            0
        }
    }
}

/// stable key of a panic message: `panic:<file>:<line>`
pub fn panic_key(msg: &str) -> String {
    let loc = msg.split("panicked at ").nth(1).and_then(|r| r.split(':').take(2).collect::<Vec<_>>().join(":").split_whitespace().next().map(|s| s.to_string())).unwrap_or_default();
    format!("panic:{loc}")
}

pub fn sanitize(s: &str) -> String {
    s.chars().map(|c| if c.is_ascii_alphanumeric() { c } else { '_' }).collect()
}
pub fn truncate(s: &str, n: usize) -> String {
    if s.len() <= n {
        s.to_string()
    } else {
        let mut end = n;
        while !s.is_char_boundary(end) {
            end -= 1;
        }
        format!("{}…[{} bytes]", &s[..end], s.len())
    }
}
pub fn hex(b: &[u8]) -> String {
    let mut s = String::with_capacity(b.len() * 2);
    for x in b {
        s.push_str(&format!("{:02x}", x));
    }
    s
}
pub fn unhex(s: &str) -> Vec<u8> {
    let s: Vec<u8> = s.bytes().filter(|c| c.is_ascii_hexdigit()).collect();
    s.chunks(2)
        .filter(|c| c.len() == 2)
        .map(|c| u8::from_str_radix(std::str::from_utf8(c).unwrap(), 16).unwrap())
        .collect()
}

// ---------------------------------------------------------------------------------------------
// panic capture
// ---------------------------------------------------------------------------------------------
thread_local! {
    static LAST_PANIC: std::cell::RefCell<Option<String>> = const { std::cell::RefCell::new(None) };
    static QUIET: std::cell::Cell<bool> = const { std::cell::Cell::new(false) };
}

pub static WORKER_PANICS: AtomicU64 = AtomicU64::new(0);
pub static LAST_WORKER_PANIC: Mutex<Option<String>> = Mutex::new(None);

pub fn install_panic_hook() {
    let default = std::panic::take_hook();
    std::panic::set_hook(Box::new(move |info| {
        let msg = format!("{}", info);
        // a panic on one of the pools' worker threads kills that worker: remember it for the pool driver
        if std::thread::current().name().map(|n| n.contains("-worker-")).unwrap_or(false) {
            WORKER_PANICS.fetch_add(1, Ordering::SeqCst);
            if let Ok(mut g) = LAST_WORKER_PANIC.lock() {
                *g = Some(msg.clone());
            }
            return;
        }
        LAST_PANIC.with(|p| *p.borrow_mut() = Some(msg));
        if !QUIET.with(|q| q.get()) {
            default(info);
        }
    }));
}

/// Run `f`, converting a panic into Err(message with location).
pub fn catch<R>(f: impl FnOnce() -> R) -> Result<R, String> {
    QUIET.with(|q| q.set(true));
    let r = std::panic::catch_unwind(std::panic::AssertUnwindSafe(f));
    QUIET.with(|q| q.set(false));
    match r {
        Ok(v) => Ok(v),
        Err(_) => Err(LAST_PANIC.with(|p| p.borrow_mut().take()).unwrap_or_else(|| "panic".into())),
    }
}

// ---------------------------------------------------------------------------------------------
// watchdog: whole-run and per-case; a hit is *inconclusive* (exit 2), never a violation
// ---------------------------------------------------------------------------------------------
static WD_LAST: AtomicU64 = AtomicU64::new(0);
static WD_ON: AtomicBool = AtomicBool::new(false);
static WD_START: std::sync::OnceLock<Instant> = std::sync::OnceLock::new();

fn wd_now() -> u64 {
    WD_START.get().map(|s| s.elapsed().as_millis() as u64).unwrap_or(0)
}
pub fn watchdog_touch() {
    if WD_ON.load(Ordering::Relaxed) {
        // cheap: only an atomic store of a coarse time every call
        WD_LAST.store(wd_now_fast(), Ordering::Relaxed);
    }
}
fn wd_now_fast() -> u64 {
    // Instant::now is ~20ns; fine at our rates
    wd_now()
}
// ---------------------------------------------------------------------------------------------
// case registry: which input is each checking thread working on right now (hang / runaway-memory detector)
// ---------------------------------------------------------------------------------------------
const SLOT_N: usize = 256;
const SLOT_BUF: usize = 70_000;
pub const CASE_TAGS: [&str; 3] = ["frame", "stream", "text"];
struct Slot {
    gen: AtomicU64,
    len: AtomicUsize,
    tag: AtomicUsize,
    start_ms: AtomicU64,
    cases: AtomicU64,
    /// generation of a case the judge has already found to pass alone (slow, not stuck): not suspected again
    cleared: AtomicU64,
    buf: std::cell::UnsafeCell<[u8; SLOT_BUF]>,
}
unsafe impl Sync for Slot {}
#[allow(clippy::declare_interior_mutable_const)]
const SLOT_INIT: Slot = Slot { gen: AtomicU64::new(0), len: AtomicUsize::new(0), tag: AtomicUsize::new(0), start_ms: AtomicU64::new(0), cases: AtomicU64::new(0), cleared: AtomicU64::new(u64::MAX), buf: std::cell::UnsafeCell::new([0u8; SLOT_BUF]) };
static SLOTS: [Slot; SLOT_N] = [SLOT_INIT; SLOT_N];
static NEXT_SLOT: AtomicUsize = AtomicUsize::new(0);
thread_local! {
    static MY_SLOT: std::cell::Cell<usize> = const { std::cell::Cell::new(usize::MAX) };
}
pub struct CaseGuard(usize);
/// Announce the input the calling thread is about to hand to the code under test (one level: nested guards are no-ops).
/// The watchdog reads the registry when a case does not come back or memory runs away.
pub fn case_guard(tag: &'static str, bytes: &[u8]) -> CaseGuard {
    if !WD_ON.load(Ordering::Relaxed) || bytes.is_empty() || bytes.len() > SLOT_BUF {
        return CaseGuard(usize::MAX);
    }
    let i = MY_SLOT.with(|c| {
        if c.get() == usize::MAX {
            c.set(NEXT_SLOT.fetch_add(1, Ordering::Relaxed) % SLOT_N);
        }
        c.get()
    });
    let s = &SLOTS[i];
    if s.len.load(Ordering::Relaxed) != 0 {
        return CaseGuard(usize::MAX);
    }
    s.gen.fetch_add(1, Ordering::AcqRel); // odd: being written
    unsafe {
        std::ptr::copy_nonoverlapping(bytes.as_ptr(), (*s.buf.get()).as_mut_ptr(), bytes.len());
    }
    s.tag.store(CASE_TAGS.iter().position(|t| *t == tag).unwrap_or(0), Ordering::Relaxed);
    s.start_ms.store(wd_now(), Ordering::Relaxed);
    s.cases.fetch_add(1, Ordering::Relaxed);
    s.len.store(bytes.len(), Ordering::Release);
    s.gen.fetch_add(1, Ordering::AcqRel); // even: stable
    CaseGuard(i)
}
impl Drop for CaseGuard {
    fn drop(&mut self) {
        if self.0 != usize::MAX {
            SLOTS[self.0].len.store(0, Ordering::Release);
        }
    }
}
fn slot_snapshot(i: usize) -> Option<(usize, Vec<u8>, u64)> {
    let s = &SLOTS[i];
    let g1 = s.gen.load(Ordering::Acquire);
    let len = s.len.load(Ordering::Acquire);
    if g1 % 2 == 1 || len == 0 || len > SLOT_BUF {
        return None;
    }
    let v = unsafe { (&(*s.buf.get()))[..len].to_vec() };
    let (tag, start) = (s.tag.load(Ordering::Relaxed), s.start_ms.load(Ordering::Relaxed));
    if s.gen.load(Ordering::Acquire) != g1 || s.len.load(Ordering::Acquire) != len {
        return None;
    }
    Some((tag, v, start))
}
fn rss_bytes() -> u64 {
    std::fs::read_to_string("/proc/self/statm").ok().and_then(|t| t.split_whitespace().nth(1).and_then(|p| p.parse::<u64>().ok())).map(|p| p * 4096).unwrap_or(0)
}
/// A case that does not come back (or memory that runs away) is not judged here, on a loaded machine, by wall-clock: the input is
/// saved and this process is replaced by the judge (`check <ID> --judge-hang <file>`), which re-executes the one input alone under a
/// CPU-time and an address-space limit.
fn suspect(id: &str, tier: &str, i: usize, why: &str) {
    let Some((tag, bytes, start)) = slot_snapshot(i) else { return };
    let cases: u64 = SLOTS.iter().map(|s| s.cases.load(Ordering::Relaxed)).sum();
    let body = json!({
        "property": id, "sub": "isolated-input", "what": format!("suspected:{why}"), "tier": tier,
        "detail": format!("a case of {} bytes ({}) had not returned after {} ms ({why}); {} guarded cases had been started by then", bytes.len(), CASE_TAGS[tag], wd_now().saturating_sub(start), cases),
        "input": {"tag": CASE_TAGS[tag], "hex": hex(&bytes), "cases_started": cases},
    });
    let dir = format!("{VERIF_ROOT}/replays/found");
    let _ = std::fs::create_dir_all(&dir);
    let path = format!("{dir}/{id}-isolated_input-{:016x}.json", fnv64(&bytes));
    let _ = std::fs::write(&path, serde_json::to_string_pretty(&body).unwrap());
    eprintln!("[{id}] {why}: input saved to {path}; judging it alone under a CPU-time and a memory limit");
    use std::os::unix::process::CommandExt;
    let exe = std::env::current_exe().expect("current exe");
    if why == "no-return" {
        // the run goes on while the judge works: a case that is merely slow on a loaded machine must not end the run
        let gen = SLOTS[i].gen.load(Ordering::Acquire);
        match std::process::Command::new(&exe).args([id, "--tier", tier, "--judge-hang", &path]).output() {
            Ok(o) if o.status.code() == Some(1) => {
                eprint!("{}", String::from_utf8_lossy(&o.stderr));
                print!("{}", String::from_utf8_lossy(&o.stdout));
                std::process::exit(1);
            }
            _ => {
                eprintln!("[{id}] the saved input passes alone: slow on this machine, not stuck; the run continues");
                SLOTS[i].cleared.store(gen, Ordering::Release);
                let _ = std::fs::remove_file(&path);
                return;
            }
        }
    }
    let e = std::process::Command::new(exe).args([id, "--tier", tier, "--judge-hang", &path]).exec();
    println!("INCONCLUSIVE property={id} reason=cannot-start-the-judge ({e})");
    std::process::exit(2);
}

/// `check <ID> --judge-hang <file>`: re-execute one saved input alone (`--replay`) in a child limited to 120 s of CPU time and 8 GB of
/// address space (normal cost: milliseconds, megabytes). Killed by a limit / aborted => the property's "never aborts ... or fails to
/// terminate" is violated (CPU time of an isolated run, not wall-clock: machine load cannot cause it). Passing alone => inconclusive.
pub fn judge_hang(id: &str, tier: &str, seed: u64, path: &str, replay_mode: bool) -> i32 {
    let t0 = Instant::now();
    let exe = std::env::current_exe().expect("current exe");
    let cpu_s: u64 = std::env::var("VERIF_JUDGE_CPU_S").ok().and_then(|v| v.parse().ok()).unwrap_or(120);
    let out = std::process::Command::new("sh").arg("-c").arg(format!("ulimit -t {cpu_s}; ulimit -v 8000000; exec \"$0\" \"$@\"")).arg(&exe).args([id, "--tier", tier, "--replay", path]).env("VERIF_ISOLATED", "1").output();
    let out = match out {
        Ok(o) => o,
        Err(e) => {
            println!("INCONCLUSIVE property={id} reason=judge-could-not-run ({e})");
            return 2;
        }
    };
    use std::os::unix::process::ExitStatusExt;
    let stdout = String::from_utf8_lossy(&out.stdout).to_string();
    let verdict: Option<String> = match (out.status.code(), out.status.signal()) {
        (_, Some(sig)) => Some(format!("killed by signal {sig} ({})", match sig { 24 | 9 => "CPU-time limit: the input alone does not terminate within the CPU-time limit", 6 => "abort: memory exhausted under an 8 GB limit, or an abort in the code", 11 => "segmentation fault", _ => "signal" })),
        (Some(134), _) => Some("aborted (memory exhausted under an 8 GB limit, or an abort in the code)".into()),
        (Some(137), _) | (Some(152), _) => Some(format!("killed by the CPU-time limit: the input alone does not terminate within {cpu_s} s of CPU")),
        (Some(1), _) if stdout.contains("VIOLATION property=") => Some("the input alone violates the property (see the replay output)".into()),
        _ => None,
    };
    let saved: Value = std::fs::read_to_string(path).ok().and_then(|t| serde_json::from_str(&t).ok()).unwrap_or(Value::Null);
    let cases = saved["input"]["cases_started"].as_u64().unwrap_or(0);
    let ev = |violations: u32, note: &str| {
        let ev = json!({
            "property_id": id, "tier": tier, "seed": seed, "level": "exploration",
            "coverage": {
                "evaluations": cases, "distinct_nontrivial": 0,
                "rule": format!("run cut short by the hang / runaway-memory detector after {cases} guarded cases; the suspected input was re-executed alone under RLIMIT_CPU 120 s / RLIMIT_AS 8 GB: {note}. distinct_nontrivial is not measured in this path (counted as 0)"),
                "samples": [saved["input"].clone()], "exhaustive": false,
            },
            "assumptions": ["non-termination is decided by the CPU time of an isolated re-execution of one input, never by wall-clock"],
            "wall_s": t0.elapsed().as_secs_f64(), "violations": violations,
        });
        let _ = std::fs::create_dir_all(format!("{VERIF_ROOT}/evidence"));
        let _ = std::fs::write(format!("{VERIF_ROOT}/evidence/{id}.json"), serde_json::to_string_pretty(&ev).unwrap());
    };
    if replay_mode {
        return match verdict {
            Some(v) => {
                println!("replay: does-not-terminate-or-aborts :: {v}");
                println!("VIOLATION property={id} replay={path}");
                1
            }
            None => {
                println!("REPLAY-PASS property={id} file={path}");
                0
            }
        };
    }
    match verdict {
        Some(v) => {
            eprintln!("[{id}] violation in isolated-input: does-not-terminate-or-aborts :: {v} :: {}", truncate(&saved["detail"].as_str().unwrap_or("").to_string(), 300));
            ev(1, &v);
            println!("VIOLATION property={id} replay={path}");
            1
        }
        None => {
            ev(0, "it passes alone");
            println!("INCONCLUSIVE property={id} reason=a-case-stalled-in-the-run-but-passes-alone (machine load?) input={path}");
            2
        }
    }
}

pub fn start_watchdog(id: &str, total_budget_s: u64, stall_budget_s: u64) {
    start_watchdog_tier(id, "quick", total_budget_s, stall_budget_s)
}
pub fn start_watchdog_tier(id: &str, tier: &str, total_budget_s: u64, stall_budget_s: u64) {
    let _ = WD_START.set(Instant::now());
    WD_ON.store(true, Ordering::SeqCst);
    WD_LAST.store(0, Ordering::SeqCst);
    let id = id.to_string();
    let tier = tier.to_string();
    let case_stall_ms: u64 = std::env::var("VERIF_CASE_STALL_S").ok().and_then(|v| v.parse::<u64>().ok()).unwrap_or(30) * 1000;
    let mem_cap: u64 = std::env::var("VERIF_MEM_CAP_MB").ok().and_then(|v| v.parse::<u64>().ok()).unwrap_or(6_000) * 1_000_000;
    std::thread::Builder::new()
        .name("watchdog".into())
        .spawn(move || loop {
            std::thread::sleep(std::time::Duration::from_millis(200));
            let now = wd_now();
            // a guarded case that has not returned for a long time, or memory running away while guarded cases are in flight
            let mut oldest: Option<(usize, u64)> = None;
            for (i, s) in SLOTS.iter().enumerate() {
                if s.len.load(Ordering::Acquire) != 0 && s.gen.load(Ordering::Acquire) != s.cleared.load(Ordering::Acquire) {
                    let st = s.start_ms.load(Ordering::Relaxed);
                    if oldest.map(|o| st < o.1).unwrap_or(true) {
                        oldest = Some((i, st));
                    }
                }
            }
            if let Some((i, st)) = oldest {
                if now.saturating_sub(st) > case_stall_ms {
                    suspect(&id, &tier, i, "no-return");
                } else if now.saturating_sub(st) > 1000 && rss_bytes() > mem_cap {
                    suspect(&id, &tier, i, "memory-runs-away");
                }
            }
            let last = WD_LAST.load(Ordering::Relaxed);
            if now > total_budget_s * 1000 {
                println!("INCONCLUSIVE property={id} reason=total-time-budget-exceeded ({total_budget_s}s)");
                std::process::exit(2);
            }
            if now.saturating_sub(last) > stall_budget_s * 1000 {
                println!("INCONCLUSIVE property={id} reason=no-progress-for-{stall_budget_s}s (possible hang; see stderr)");
                std::process::exit(2);
            }
        })
        .expect("watchdog thread");
}

pub fn scratch_dir() -> PathBuf {
    let p = PathBuf::from(format!("{VERIF_ROOT}/harness/target/scratch"));
    let _ = std::fs::create_dir_all(&p);
    p
}

/// shrink-friendly index mapping: monotone in `raw`
pub fn idx(raw: u16, len: usize) -> usize {
    if len == 0 {
        0
    } else {
        ((raw as usize) * len) >> 16
    }
}

/// Simple holder so that strategies' new_tree can be used for sampling without a full run
pub fn sample_one<S: Strategy>(s: &S, runner: &mut TestRunner) -> S::Value {
    s.new_tree(runner).expect("strategy").current()
}

// ---------------------------------------------------------------------------------------------
// libFuzzer campaigns (thorough tier): cargo-fuzz targets under /verif/harness/fuzz
// ---------------------------------------------------------------------------------------------
/// Run a child process to its end while keeping the stall watchdog informed (a campaign or a cold `cargo fuzz build` on a
/// loaded machine takes longer than the stall budget); `cap_s` bounds the child, which is killed beyond it (-> None).
fn run_child(mut cmd: std::process::Command, cap_s: u64) -> Option<std::process::Output> {
    use std::io::Read;
    let mut child = cmd.stdout(std::process::Stdio::null()).stderr(std::process::Stdio::piped()).spawn().ok()?;
    let mut stderr = child.stderr.take()?;
    let reader = std::thread::spawn(move || {
        let mut buf = Vec::new();
        let _ = stderr.read_to_end(&mut buf);
        buf
    });
    let t0 = Instant::now();
    let status = loop {
        watchdog_touch();
        match child.try_wait() {
            Ok(Some(st)) => break Some(st),
            Ok(None) => {}
            Err(_) => break None,
        }
        if t0.elapsed().as_secs() > cap_s {
            let _ = child.kill();
            let _ = child.wait();
            break None;
        }
        std::thread::sleep(std::time::Duration::from_millis(500));
    };
    let err = reader.join().unwrap_or_default();
    status.map(|st| std::process::Output { status: st, stdout: vec![], stderr: err })
}

impl Ctx {
    /// Run one coverage-guided campaign. A crash (the target's in-process oracle panicked) is a violation whose
    /// replay file is libFuzzer's artifact; hitting the time cap before `runs` executions is recorded as an
    /// inconclusive part, never as a violation; a build failure makes the whole check inconclusive (exit 2).
    pub fn fuzz_campaign(&self, target: &str, corpus_name: &str, seeds: &[Vec<u8>], runs: u64, max_time_s: u64) {
        let name = format!("libfuzzer:{target}:{corpus_name}");
        if !self.want(&name) {
            return;
        }
        let t0 = Instant::now();
        let fuzz_dir = format!("{VERIF_ROOT}/harness/fuzz");
        let corpus = format!("{fuzz_dir}/corpus-work/{target}-{corpus_name}-{}", self.seed);
        let artifacts = format!("{fuzz_dir}/artifacts/{target}/");
        let _ = std::fs::remove_dir_all(&corpus);
        let _ = std::fs::create_dir_all(&corpus);
        let _ = std::fs::create_dir_all(&artifacts);
        for (i, s) in seeds.iter().enumerate() {
            let _ = std::fs::write(format!("{corpus}/seed-{i:04}"), s);
        }
        let mut st = Stats::new();
        let mut bcmd = std::process::Command::new("cargo");
        bcmd.args(["+nightly", "fuzz", "build", target]).current_dir(&fuzz_dir).env("CARGO_NET_OFFLINE", "true");
        match run_child(bcmd, 3600) {
            Some(o) if o.status.success() => {}
            other => {
                eprintln!("[{}] cargo fuzz build {target} failed: {:?}", self.id, other.map(|o| String::from_utf8_lossy(&o.stderr).chars().rev().take(600).collect::<String>().chars().rev().collect::<String>()));
                st.class("ABORT:cargo-fuzz-build-failed");
                self.push(&name, "libFuzzer campaign (build failed)", false, st, t0);
                return;
            }
        }
        let seed = if self.seed == 0 { 1 } else { self.seed & 0x7fff_ffff };
        let mut rcmd = std::process::Command::new("cargo");
        rcmd.args(["+nightly", "fuzz", "run", target, &corpus, "--"])
            .arg(format!("-runs={runs}"))
            .arg(format!("-seed={seed}"))
            .arg(format!("-max_total_time={max_time_s}"))
            .args(["-len_control=0", "-max_len=4096", "-print_final_stats=1", "-timeout=25"])
            .arg(format!("-artifact_prefix={artifacts}"))
            .current_dir(&fuzz_dir)
            .env("CARGO_NET_OFFLINE", "true");
        let out = match run_child(rcmd, max_time_s + 900) {
            Some(o) => o,
            None => {
                eprintln!("[{}] cargo fuzz run {target}: could not start or exceeded its wall-clock cap (inconclusive)", self.id);
                st.class("INCONCLUSIVE:cargo-fuzz-run-did-not-finish");
                self.push(&name, "libFuzzer campaign (did not finish)", false, st, t0);
                return;
            }
        };
        let err = String::from_utf8_lossy(&out.stderr).to_string();
        let stat = |k: &str| -> u64 { err.lines().find(|l| l.contains(k)).and_then(|l| l.rsplit(':').next()).and_then(|v| v.trim().parse().ok()).unwrap_or(0) };
        let executed = stat("stat::number_of_executed_units");
        let new_units = stat("stat::new_units_added");
        st.evals = executed;
        // distinct non-trivial = inputs that reached new coverage (the corpus libFuzzer kept)
        let kept = std::fs::read_dir(&corpus).map(|d| d.count()).unwrap_or(0);
        for i in 0..kept {
            st.nontrivial(&(target, corpus_name, i));
        }
        st.sample(|| json!({"target": target, "corpus": corpus_name, "seed_inputs": seeds.len(), "executed": executed, "new_units_added": new_units, "corpus_after": kept}));
        if !out.status.success() {
            // find the artifact libFuzzer wrote
            let art = err.lines().find(|l| l.contains("Test unit written to")).and_then(|l| l.split("written to ").nth(1)).map(|s| s.trim().to_string());
            let is_timeout_or_oom = err.contains("ERROR: libFuzzer: timeout") || err.contains("ERROR: libFuzzer: out-of-memory");
            let msg = err.lines().filter(|l| l.contains("panicked at") || l.contains("violated") || l.contains("ERROR:")).take(4).collect::<Vec<_>>().join(" | ");
            if is_timeout_or_oom {
                st.class("INCONCLUSIVE:libfuzzer-timeout-or-oom");
                eprintln!("[{}] libFuzzer {target}: timeout/oom unit {:?} (inconclusive)", self.id, art);
            } else if art.is_none() {
                // the fuzzer process failed without writing a failing unit (sanitizer could not reserve its shadow memory under an
                // address-space limit, target binary could not start ...): no input of the target's oracle failed - inconclusive
                st.class("INCONCLUSIVE:libfuzzer-process-failed-without-a-failing-unit");
                eprintln!("[{}] libFuzzer {target}: process failed without a failing unit (inconclusive): {}", self.id, truncate(&msg, 300));
            } else {
                st.fail(Fail::new(format!("libfuzzer:{target}:crash"), format!("{msg} | artifact {:?}", art)), json!({"artifact": art, "target": target}));
            }
        } else if executed < runs {
            st.class("time-cap-hit-before-all-runs(inconclusive part)");
        }
        self.push(&name, &format!("coverage-guided libFuzzer campaign on cargo-fuzz target `{target}` ({corpus_name} corpus, -runs={runs}, cap {max_time_s} s, oracle inside the target); non-trivial: inputs that reached new coverage"), false, st, t0);
    }
}
