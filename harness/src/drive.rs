//! Adapters onto /repo's public API.
use huginn_net_db::Database;
use huginn_net_tcp::packet_parser::{parse_packet as tcp_parse, IpPacket as TcpIp};
use huginn_net_tcp::{ConnectionKey, TcpAnalysisResult, TcpTimestamp};
use std::sync::OnceLock;
use ttl_cache::TtlCache;

pub fn default_db() -> &'static Database {
    static DB: OnceLock<Database> = OnceLock::new();
    DB.get_or_init(|| Database::load_default().expect("bundled database loads"))
}

pub type TcpTracker = TtlCache<ConnectionKey, TcpTimestamp>;

/// Outcome of feeding one frame to the TCP analyzer's per-packet path.
pub enum TcpOut {
    NotIp,
    Err(String),
    Ok(TcpAnalysisResult),
}

pub fn tcp_packet(frame: &[u8], tracker: &mut TcpTracker, with_matcher: bool) -> TcpOut {
    let matcher = if with_matcher { Some(huginn_net_tcp::SignatureMatcher::new(default_db())) } else { None };
    match tcp_parse(frame) {
        TcpIp::Ipv4(ip) => match huginn_net_tcp::process_ipv4_packet(&ip, tracker, matcher.as_ref()) {
            Ok(r) => TcpOut::Ok(r),
            Err(e) => TcpOut::Err(format!("{e}")),
        },
        TcpIp::Ipv6(ip) => match huginn_net_tcp::process_ipv6_packet(&ip, tracker, matcher.as_ref()) {
            Ok(r) => TcpOut::Ok(r),
            Err(e) => TcpOut::Err(format!("{e}")),
        },
        TcpIp::None => TcpOut::NotIp,
    }
}

/// Set / clear the calling thread's verification clock (hook H1).
pub fn set_clock(ms: Option<u64>) {
    huginn_net_tcp::verif_hooks::set_thread_now_ms(ms);
}

/// canonical rendering of a TLS result (the output type has no Debug)
pub fn tls_out_str(o: &huginn_net_tls::TlsClientOutput) -> String {
    format!("{}:{} -> {}:{} {:?}", o.source.ip, o.source.port, o.destination.ip, o.destination.port, o.sig)
}
