//! Adapters onto /repo's public API.
use huginn_net_db::Database;
use huginn_net_tcp::packet_parser::{parse_packet as tcp_parse, IpPacket as TcpIp};
use huginn_net_tcp::{ConnectionKey, TcpAnalysisResult, TcpTimestamp};
use std::sync::OnceLock;
use ttl_cache::TtlCache;

pub fn default_db() -> &'static Database {
    static DB: OnceLock<Database> = OnceLock::new();
    DB.get_or_init(|| Database::load_default().expect("bundled database loads"))
}

pub type TcpTracker = TtlCache<ConnectionKey, TcpTimestamp>;

/// Outcome of feeding one frame to the TCP analyzer's per-packet path.
pub enum TcpOut {
    NotIp,
    Err(String),
    Ok(TcpAnalysisResult),
}

pub fn tcp_packet(frame: &[u8], tracker: &mut TcpTracker, with_matcher: bool) -> TcpOut {
    let matcher = if with_matcher { Some(huginn_net_tcp::SignatureMatcher::new(default_db())) } else { None };
    match tcp_parse(frame) {
        TcpIp::Ipv4(ip) => match huginn_net_tcp::process_ipv4_packet(&ip, tracker, matcher.as_ref()) {
            Ok(r) => TcpOut::Ok(r),
            Err(e) => TcpOut::Err(format!("{e}")),
        },
        TcpIp::Ipv6(ip) => match huginn_net_tcp::process_ipv6_packet(&ip, tracker, matcher.as_ref()) {
            Ok(r) => TcpOut::Ok(r),
            Err(e) => TcpOut::Err(format!("{e}")),
        },
        TcpIp::None => TcpOut::NotIp,
    }
}

/// Set / clear the calling thread's verification clock (hook H1).
pub fn set_clock(ms: Option<u64>) {
    huginn_net_tcp::verif_hooks::set_thread_now_ms(ms);
}

/// canonical rendering of a TLS result (the output type has no Debug)
pub fn tls_out_str(o: &huginn_net_tls::TlsClientOutput) -> String {
    format!("{}:{} -> {}:{} {:?}", o.source.ip, o.source.port, o.destination.ip, o.destination.port, o.sig)
}

// ---------------------------------------------------------------------------------------------
// canonical renderings of results (several output types have no Debug)
// ---------------------------------------------------------------------------------------------
pub fn http_req_str(o: &huginn_net_http::HttpRequestOutput) -> String {
    format!(
        "REQ {}:{}->{}:{} lang={:?} browser={:?}/{:?} diag={} sig={:?}",
        o.source.ip,
        o.source.port,
        o.destination.ip,
        o.destination.port,
        o.lang,
        o.browser_matched.browser.as_ref().map(|b| format!("{}|{:?}|{:?}|{}", b.name, b.family, b.variant, b.kind)),
        o.browser_matched.quality,
        o.diagnosis,
        o.sig
    )
}
pub fn http_resp_str(o: &huginn_net_http::HttpResponseOutput) -> String {
    format!(
        "RESP {}:{}->{}:{} server={:?}/{:?} diag={} sig={:?}",
        o.source.ip,
        o.source.port,
        o.destination.ip,
        o.destination.port,
        o.web_server_matched.web_server.as_ref().map(|b| format!("{}|{:?}|{:?}|{}", b.name, b.family, b.variant, b.kind)),
        o.web_server_matched.quality,
        o.diagnosis,
        o.sig
    )
}
pub fn http_result_strs(r: &huginn_net_http::HttpAnalysisResult) -> Vec<String> {
    let mut v = vec![];
    if let Some(q) = &r.http_request {
        v.push(http_req_str(q));
    }
    if let Some(q) = &r.http_response {
        v.push(http_resp_str(q));
    }
    v
}
/// TCP result parts as separate strings (empty when the result is all-None)
pub fn tcp_result_strs(r: &huginn_net_tcp::TcpAnalysisResult) -> Vec<String> {
    let mut v = vec![];
    if let Some(x) = &r.syn {
        v.push(format!("SYN {:?}", x));
    }
    if let Some(x) = &r.syn_ack {
        v.push(format!("SYNACK {:?}", x));
    }
    if let Some(x) = &r.mtu {
        v.push(format!("MTU {:?}", x));
    }
    if let Some(x) = &r.client_uptime {
        v.push(format!("CUP {:?}", x));
    }
    if let Some(x) = &r.server_uptime {
        v.push(format!("SUP {:?}", x));
    }
    v
}
pub fn unified_tcp_strs(r: &huginn_net::output::FingerprintResult) -> Vec<String> {
    let mut v = vec![];
    if let Some(x) = &r.tcp_syn {
        v.push(format!("SYN {:?}", x));
    }
    if let Some(x) = &r.tcp_syn_ack {
        v.push(format!("SYNACK {:?}", x));
    }
    if let Some(x) = &r.tcp_mtu {
        v.push(format!("MTU {:?}", x));
    }
    if let Some(x) = &r.tcp_client_uptime {
        v.push(format!("CUP {:?}", x));
    }
    if let Some(x) = &r.tcp_server_uptime {
        v.push(format!("SUP {:?}", x));
    }
    v
}
pub fn unified_http_strs(r: &huginn_net::output::FingerprintResult) -> Vec<String> {
    let mut v = vec![];
    if let Some(q) = &r.http_request {
        v.push(http_req_str(q));
    }
    if let Some(q) = &r.http_response {
        v.push(http_resp_str(q));
    }
    v
}

// ---------------------------------------------------------------------------------------------
// per-packet drivers with owned state
// ---------------------------------------------------------------------------------------------
pub struct HttpState {
    pub flows: ttl_cache::TtlCache<huginn_net_http::http_process::FlowKey, huginn_net_http::http_process::TcpFlow>,
    pub procs: huginn_net_http::http_process::HttpProcessors,
}
impl HttpState {
    pub fn new(cap: usize) -> Self {
        HttpState { flows: ttl_cache::TtlCache::new(cap), procs: huginn_net_http::http_process::HttpProcessors::new() }
    }
    pub fn feed(&mut self, f: &[u8], with_matcher: bool) -> Result<huginn_net_http::HttpAnalysisResult, String> {
        self.feed_db(f, if with_matcher { Some(default_db()) } else { None })
    }
    pub fn feed_db(&mut self, f: &[u8], db: Option<&Database>) -> Result<huginn_net_http::HttpAnalysisResult, String> {
        use huginn_net_http::packet_parser::{parse_packet, IpPacket};
        let m = db.map(huginn_net_http::SignatureMatcher::new);
        match parse_packet(f) {
            IpPacket::Ipv4(p) => huginn_net_http::process::process_ipv4_packet(&p, &mut self.flows, &self.procs, m.as_ref()).map_err(|e| e.to_string()),
            IpPacket::Ipv6(p) => huginn_net_http::process::process_ipv6_packet(&p, &mut self.flows, &self.procs, m.as_ref()).map_err(|e| e.to_string()),
            IpPacket::None => Err("NOT-IP".into()),
        }
    }
}
pub struct TlsState {
    pub flows: ttl_cache::TtlCache<huginn_net_tls::FlowKey, huginn_net_tls::tls_client_hello_reader::TlsClientHelloReader>,
}
impl TlsState {
    pub fn new(cap: usize) -> Self {
        TlsState { flows: ttl_cache::TtlCache::new(cap) }
    }
    pub fn feed(&mut self, f: &[u8]) -> Result<Option<huginn_net_tls::TlsClientOutput>, String> {
        use huginn_net_tls::packet_parser::{parse_packet, IpPacket};
        match parse_packet(f) {
            IpPacket::Ipv4(p) => huginn_net_tls::process::process_ipv4_packet(&p, &mut self.flows).map_err(|e| e.to_string()),
            IpPacket::Ipv6(p) => huginn_net_tls::process::process_ipv6_packet(&p, &mut self.flows).map_err(|e| e.to_string()),
            IpPacket::None => Err("NOT-IP".into()),
        }
    }
}

// ---------------------------------------------------------------------------------------------
// pcap files (classic format) for the analyzers' analyze_pcap entry points
// ---------------------------------------------------------------------------------------------
pub fn write_pcap(path: &std::path::Path, frames: &[&[u8]]) {
    let mut out: Vec<u8> = vec![];
    out.extend_from_slice(&0xa1b2c3d4u32.to_le_bytes());
    out.extend_from_slice(&2u16.to_le_bytes());
    out.extend_from_slice(&4u16.to_le_bytes());
    out.extend_from_slice(&0i32.to_le_bytes());
    out.extend_from_slice(&0u32.to_le_bytes());
    out.extend_from_slice(&262144u32.to_le_bytes());
    out.extend_from_slice(&1u32.to_le_bytes()); // LINKTYPE_ETHERNET (the analyzers sniff the framing themselves)
    for (i, f) in frames.iter().enumerate() {
        out.extend_from_slice(&(1_700_000_000u32 + i as u32).to_le_bytes());
        out.extend_from_slice(&0u32.to_le_bytes());
        out.extend_from_slice(&(f.len() as u32).to_le_bytes());
        out.extend_from_slice(&(f.len() as u32).to_le_bytes());
        out.extend_from_slice(f);
    }
    std::fs::write(path, out).expect("write pcap");
}

/// unique scratch file name for this thread
pub fn scratch_file(tag: &str) -> std::path::PathBuf {
    use std::sync::atomic::{AtomicU64, Ordering};
    static N: AtomicU64 = AtomicU64::new(0);
    let n = N.fetch_add(1, Ordering::Relaxed);
    crate::engine::scratch_dir().join(format!("{}-{}-{}.pcap", tag, std::process::id(), n))
}

/// install the per-thread clock table of a packet list (TSval -> arrival ms)
pub fn set_clock_table(pk: &[crate::gen::trace::Packet]) {
    let mut m = std::collections::HashMap::new();
    for p in pk {
        if let Some(v) = p.tsval {
            m.insert(v, p.at);
        }
    }
    huginn_net_tcp::verif_hooks::set_thread_now_ms(None);
    huginn_net_tcp::verif_hooks::set_thread_clock_table(Some(m));
}
pub fn clear_clock_table() {
    huginn_net_tcp::verif_hooks::set_thread_clock_table(None);
}

// keyed renderings: (ordering key, rendering). The key names the unit whose results must keep their order.
pub fn tcp_keyed(r: &huginn_net_tcp::TcpAnalysisResult) -> Vec<(String, String)> {
    // the TCP pool shards by sender: key = source address
    let src = r
        .syn
        .as_ref()
        .map(|x| x.source.ip)
        .or(r.syn_ack.as_ref().map(|x| x.source.ip))
        .or(r.mtu.as_ref().map(|x| x.source.ip))
        .or(r.client_uptime.as_ref().map(|x| x.source.ip))
        .or(r.server_uptime.as_ref().map(|x| x.source.ip));
    match src {
        Some(s) => vec![(s.to_string(), tcp_result_strs(r).join(" || "))],
        None => vec![],
    }
}
pub fn http_keyed(r: &huginn_net_http::HttpAnalysisResult) -> Vec<(String, String)> {
    let mut v = vec![];
    let key = |a: std::net::IpAddr, ap: u16, b: std::net::IpAddr, bp: u16| {
        let (x, y) = ((a, ap), (b, bp));
        if x <= y {
            format!("{:?}-{:?}", x, y)
        } else {
            format!("{:?}-{:?}", y, x)
        }
    };
    if let Some(q) = &r.http_request {
        v.push((key(q.source.ip, q.source.port, q.destination.ip, q.destination.port), http_req_str(q)));
    }
    if let Some(q) = &r.http_response {
        v.push((key(q.source.ip, q.source.port, q.destination.ip, q.destination.port), http_resp_str(q)));
    }
    v
}
pub fn tls_keyed(r: &huginn_net_tls::TlsClientOutput) -> Vec<(String, String)> {
    vec![(format!("{}:{}->{}:{}", r.source.ip, r.source.port, r.destination.ip, r.destination.port), tls_out_str(r))]
}
