//! TLS ClientHello builder (structure -> bytes) and proptest strategies.
use proptest::collection::vec;
use proptest::prelude::*;
use serde::{Deserialize, Serialize};

pub const GREASE: [u16; 16] = [
    0x0a0a, 0x1a1a, 0x2a2a, 0x3a3a, 0x4a4a, 0x5a5a, 0x6a6a, 0x7a7a, 0x8a8a, 0x9a9a, 0xaaaa, 0xbaba, 0xcaca, 0xdada, 0xeaea, 0xfafa,
];
pub fn is_grease(v: u16) -> bool {
    GREASE.contains(&v)
}

#[derive(Clone, Debug, PartialEq, Eq, Hash, Serialize, Deserialize)]
pub enum Ext {
    /// server_name: list of host names (name type 0)
    Sni(Vec<Vec<u8>>),
    Alpn(Vec<Vec<u8>>),
    SupportedVersions(Vec<u16>),
    SigAlgs(Vec<u16>),
    Groups(Vec<u16>),
    EcPointFormats(Vec<u8>),
    KeyShare(Vec<(u16, Vec<u8>)>),
    Padding(u16),
    /// GREASE extension type with a body
    Grease(u16, Vec<u8>),
    /// extension types the parser library treats as opaque, with an arbitrary body
    Other(u16, Vec<u8>),
    /// well-formed instances of other known types: (type, canonical body)
    KnownFixed(u16),
}

impl Ext {
    pub fn typ(&self) -> u16 {
        match self {
            Ext::Sni(_) => 0,
            Ext::Alpn(_) => 16,
            Ext::SupportedVersions(_) => 43,
            Ext::SigAlgs(_) => 13,
            Ext::Groups(_) => 10,
            Ext::EcPointFormats(_) => 11,
            Ext::KeyShare(_) => 51,
            Ext::Padding(_) => 21,
            Ext::Grease(t, _) => *t,
            Ext::Other(t, _) => *t,
            Ext::KnownFixed(t) => *t,
        }
    }
    pub fn body(&self) -> Vec<u8> {
        let mut b = vec![];
        match self {
            Ext::Sni(names) => {
                let mut list = vec![];
                for n in names {
                    list.push(0u8);
                    list.extend_from_slice(&(n.len() as u16).to_be_bytes());
                    list.extend_from_slice(n);
                }
                b.extend_from_slice(&(list.len() as u16).to_be_bytes());
                b.extend(list);
            }
            Ext::Alpn(protos) => {
                let mut list = vec![];
                for p in protos {
                    list.push(p.len() as u8);
                    list.extend_from_slice(p);
                }
                b.extend_from_slice(&(list.len() as u16).to_be_bytes());
                b.extend(list);
            }
            Ext::SupportedVersions(vs) => {
                b.push((vs.len() * 2) as u8);
                for v in vs {
                    b.extend_from_slice(&v.to_be_bytes());
                }
            }
            Ext::SigAlgs(vs) | Ext::Groups(vs) => {
                b.extend_from_slice(&((vs.len() * 2) as u16).to_be_bytes());
                for v in vs {
                    b.extend_from_slice(&v.to_be_bytes());
                }
            }
            Ext::EcPointFormats(f) => {
                b.push(f.len() as u8);
                b.extend_from_slice(f);
            }
            Ext::KeyShare(ks) => {
                let mut list = vec![];
                for (g, k) in ks {
                    list.extend_from_slice(&g.to_be_bytes());
                    list.extend_from_slice(&(k.len() as u16).to_be_bytes());
                    list.extend_from_slice(k);
                }
                b.extend_from_slice(&(list.len() as u16).to_be_bytes());
                b.extend(list);
            }
            Ext::Padding(n) => b.extend(std::iter::repeat(0u8).take(*n as usize)),
            Ext::Grease(_, body) | Ext::Other(_, body) => b.extend_from_slice(body),
            Ext::KnownFixed(t) => match *t {
                5 => b.extend_from_slice(&[1, 0, 0, 0, 0]), // status_request: ocsp, empty lists
                23 | 22 | 18 | 35 | 49 => {}                 // extended_master_secret, encrypt_then_mac, SCT, session_ticket, post_handshake_auth: empty
                45 => b.extend_from_slice(&[1, 1]),          // psk_key_exchange_modes
                0xff01 => b.push(0),                         // renegotiation_info
                28 => b.extend_from_slice(&[0x40, 0x01]),    // record_size_limit
                _ => {}
            },
        }
        b
    }
    pub fn bytes(&self) -> Vec<u8> {
        let body = self.body();
        let mut v = Vec::with_capacity(4 + body.len());
        v.extend_from_slice(&self.typ().to_be_bytes());
        v.extend_from_slice(&(body.len() as u16).to_be_bytes());
        v.extend(body);
        v
    }
}

#[derive(Clone, Debug, PartialEq, Eq, Hash, Serialize, Deserialize)]
pub struct Hello {
    pub record_version: u16,
    pub legacy_version: u16,
    pub random: Vec<u8>,
    pub session_id: Vec<u8>,
    pub ciphers: Vec<u16>,
    pub compression: Vec<u8>,
    /// None: the hello has no extensions block at all
    pub extensions: Option<Vec<Ext>>,
}

impl Hello {
    pub fn handshake_body(&self) -> Vec<u8> {
        let mut b = vec![];
        b.extend_from_slice(&self.legacy_version.to_be_bytes());
        let mut r = self.random.clone();
        r.resize(32, 0x5a);
        b.extend_from_slice(&r);
        b.push(self.session_id.len() as u8);
        b.extend_from_slice(&self.session_id);
        b.extend_from_slice(&((self.ciphers.len() * 2) as u16).to_be_bytes());
        for c in &self.ciphers {
            b.extend_from_slice(&c.to_be_bytes());
        }
        b.push(self.compression.len() as u8);
        b.extend_from_slice(&self.compression);
        if let Some(exts) = &self.extensions {
            let eb: Vec<u8> = exts.iter().flat_map(|e| e.bytes()).collect();
            b.extend_from_slice(&(eb.len() as u16).to_be_bytes());
            b.extend(eb);
        }
        b
    }
    /// handshake message (type 1 + 24-bit length + body)
    pub fn handshake(&self) -> Vec<u8> {
        let body = self.handshake_body();
        let mut m = vec![1u8];
        m.extend_from_slice(&(body.len() as u32).to_be_bytes()[1..]);
        m.extend(body);
        m
    }
    /// one TLS record holding the ClientHello
    pub fn record(&self) -> Vec<u8> {
        let hs = self.handshake();
        let mut r = vec![0x16];
        r.extend_from_slice(&self.record_version.to_be_bytes());
        r.extend_from_slice(&(hs.len() as u16).to_be_bytes());
        r.extend(hs);
        r
    }
    /// does the record fit the 64 KiB bound of the reader (5 + len <= 65536) and the 16-bit length?
    pub fn fits(&self) -> bool {
        self.handshake().len() <= 65531
    }
    pub fn exts(&self) -> &[Ext] {
        self.extensions.as_deref().unwrap_or(&[])
    }
}

pub fn simple_hello() -> Hello {
    Hello {
        record_version: 0x0301,
        legacy_version: 0x0303,
        random: vec![7; 32],
        session_id: vec![1; 32],
        ciphers: vec![0x1301, 0x1302, 0x1303, 0xc02b, 0xc02f],
        compression: vec![0],
        extensions: Some(vec![
            Ext::Sni(vec![b"example.com".to_vec()]),
            Ext::KnownFixed(23),
            Ext::Groups(vec![29, 23, 24]),
            Ext::EcPointFormats(vec![0]),
            Ext::Alpn(vec![b"h2".to_vec(), b"http/1.1".to_vec()]),
            Ext::SigAlgs(vec![0x0403, 0x0804, 0x0401]),
            Ext::SupportedVersions(vec![0x0304, 0x0303]),
            Ext::KeyShare(vec![(29, vec![9; 32])]),
        ]),
    }
}

// ---------------------------------------------------------------------------------------------
// strategies
// ---------------------------------------------------------------------------------------------

pub fn grease_value() -> impl Strategy<Value = u16> {
    (0usize..16).prop_map(|i| GREASE[i])
}

/// extension types that tls-parser 0.12 treats as opaque (no dedicated body parser)
pub const OPAQUE_TYPES: [u16; 24] = [2, 3, 4, 6, 7, 8, 9, 12, 14, 17, 19, 20, 24, 25, 26, 27, 29, 30, 31, 34, 50, 57, 0x4469, 0xfe0d];
pub const KNOWN_FIXED: [u16; 9] = [5, 23, 22, 18, 35, 49, 45, 0xff01, 28];

fn u16_list(max: usize, with_grease: bool) -> impl Strategy<Value = Vec<u16>> {
    let item = if with_grease {
        prop_oneof![8 => any::<u16>().prop_map(|v| if is_grease(v) { v ^ 1 } else { v }), 1 => grease_value()].boxed()
    } else {
        any::<u16>().prop_map(|v| if is_grease(v) { v ^ 1 } else { v }).boxed()
    };
    vec(item, 0..max)
}

pub fn alpn_value() -> impl Strategy<Value = Vec<u8>> {
    prop_oneof![
        4 => prop_oneof![Just(b"h2".to_vec()), Just(b"http/1.1".to_vec()), Just(b"h3".to_vec()), Just(b"spdy/3.1".to_vec()), Just(b"dot".to_vec())],
        3 => "[a-z0-9]{2,12}".prop_map(|s| s.into_bytes()),
        1 => "[a-z0-9]{1}".prop_map(|s| s.into_bytes()),
        1 => vec(any::<u8>(), 1..6),
    ]
}

pub fn ext() -> impl Strategy<Value = Ext> {
    prop_oneof![
        3 => prop_oneof![
            6 => vec("[a-z0-9.-]{1,20}".prop_map(|s| s.into_bytes()), 1..3),
            1 => Just(vec![]),
            1 => vec(vec(any::<u8>(), 1..8), 1..2),
        ].prop_map(Ext::Sni),
        3 => prop_oneof![6 => vec(alpn_value(), 1..4), 1 => Just(vec![])].prop_map(Ext::Alpn),
        3 => prop_oneof![
            4 => Just(vec![0x0304u16, 0x0303]),
            2 => Just(vec![0x0303u16, 0x0302, 0x0301]),
            1 => Just(vec![0x0304u16]),
            3 => vec(prop_oneof![4 => 0x0300u16..=0x0304, 2 => grease_value(), 1 => Just(0x7f1cu16), 1 => Just(0x0002u16)], 0..5),
        ].prop_map(Ext::SupportedVersions),
        3 => u16_list(10, true).prop_map(Ext::SigAlgs),
        3 => u16_list(8, true).prop_map(Ext::Groups),
        2 => vec(0u8..3, 1..3).prop_map(Ext::EcPointFormats),
        2 => vec((prop_oneof![Just(29u16), Just(23u16), grease_value()], vec(any::<u8>(), 1..40)), 0..3).prop_map(Ext::KeyShare),
        1 => (0u16..300).prop_map(Ext::Padding),
        3 => (grease_value(), vec(any::<u8>(), 0..3)).prop_map(|(t, b)| Ext::Grease(t, b)),
        4 => ((0usize..OPAQUE_TYPES.len()), vec(any::<u8>(), 0..12)).prop_map(|(i, b)| Ext::Other(OPAQUE_TYPES[i], b)),
        3 => (0usize..KNOWN_FIXED.len()).prop_map(|i| Ext::KnownFixed(KNOWN_FIXED[i])),
    ]
}

/// extension lists: each type at most once (RFC 8446 4.2), GREASE types may repeat with different values
pub fn ext_list(max: usize) -> impl Strategy<Value = Vec<Ext>> {
    vec(ext(), 0..max).prop_map(|v| {
        let mut seen = std::collections::BTreeSet::new();
        v.into_iter().filter(|e| seen.insert(e.typ())).collect()
    })
}

pub fn cipher_list() -> impl Strategy<Value = Vec<u16>> {
    prop_oneof![
        8 => u16_list(24, true),
        1 => Just(vec![]),
        1 => u16_list(130, true),
        // counts around the one-octet boundary (the two-digit count saturates at 99 for any size)
        1 => (prop_oneof![Just(255usize), Just(256), Just(257), Just(300), Just(511), Just(513)], any::<u16>()).prop_map(|(n, start)| {
            let mut v = vec![];
            let mut t = start;
            while v.len() < n {
                t = t.wrapping_add(7);
                if !is_grease(t) {
                    v.push(t);
                }
            }
            v
        }),
    ]
}

pub fn legacy_version() -> impl Strategy<Value = u16> {
    prop_oneof![5 => Just(0x0303u16), 2 => Just(0x0301u16), 1 => Just(0x0302u16), 1 => Just(0x0300u16), 1 => Just(0x0304u16), 2 => prop_oneof![Just(0x0305u16), Just(0x0002u16), Just(0x0200u16), Just(0xfeffu16), any::<u16>()]]
}

pub fn hello() -> impl Strategy<Value = Hello> {
    (
        0x0300u16..=0x0304,
        legacy_version(),
        vec(any::<u8>(), 32..=32),
        prop_oneof![2 => Just(vec![]), 3 => vec(any::<u8>(), 32..=32), 1 => vec(any::<u8>(), 0..=32)],
        cipher_list(),
        prop_oneof![5 => Just(vec![0u8]), 1 => vec(any::<u8>(), 1..4)],
        prop_oneof![12 => ext_list(18).prop_map(Some), 1 => Just(None), 1 => Just(Some(vec![])), 1 => big_ext_list().prop_map(Some)],
    )
        .prop_map(|(record_version, legacy_version, random, session_id, ciphers, compression, extensions)| Hello {
            record_version,
            legacy_version,
            random,
            session_id,
            ciphers,
            compression,
            extensions,
        })
}

/// > 99 extensions (all opaque / GREASE-free distinct types are too few, so use distinct private types)
fn big_ext_list() -> impl Strategy<Value = Vec<Ext>> {
    (prop_oneof![4 => 95usize..120, 1 => prop_oneof![Just(255usize), Just(256), Just(257), Just(300)]], any::<u16>()).prop_map(|(n, start)| {
        let mut v = vec![];
        let mut t = 0x8000u16 | (start & 0x0fff);
        while v.len() < n {
            t = t.wrapping_add(1);
            if !is_grease(t) && t != 0xff01 && t != 0xffce {
                v.push(Ext::Other(t, vec![]));
            }
        }
        v
    })
}
