pub mod frames;
pub mod http1;
pub mod sig;
pub mod strat;
pub mod tls;
