pub mod frames;
pub mod h2;
pub mod http1;
pub mod huffman_table;
pub mod sig;
pub mod strat;
pub mod tls;
pub mod trace;
