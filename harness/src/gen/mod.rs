pub mod frames;
pub mod strat;
pub mod tls;
