pub mod frames;
pub mod sig;
pub mod strat;
pub mod tls;
