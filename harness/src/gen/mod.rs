pub mod frames;
pub mod strat;
