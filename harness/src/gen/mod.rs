pub mod frames;
