//! Frame synthesis: link layer + IPv4/IPv6 + TCP from explicit field values.
use serde::{Deserialize, Serialize};
use std::net::{IpAddr, Ipv4Addr, Ipv6Addr};

#[derive(Clone, Copy, Debug, PartialEq, Eq, Hash, Serialize, Deserialize)]
pub enum Link {
    Ether,
    Raw,
    /// BSD loopback / NULL with the 4-byte header `1e 00 00 00` (the only one the analyzers decode)
    Null,
}

#[derive(Clone, Debug, PartialEq, Eq, Hash, Serialize, Deserialize)]
pub struct Ip4 {
    /// header length in 32-bit words as written on the wire (5..=15 for well-formed)
    pub ihl: u8,
    pub tos: u8,
    pub id: u16,
    /// 3 flag bits: 0b100 = reserved(MBZ), 0b010 = DF, 0b001 = MF
    pub flags: u8,
    pub frag_off: u16,
    pub ttl: u8,
    pub proto: u8,
    pub src: [u8; 4],
    pub dst: [u8; 4],
    /// option bytes; builder writes exactly these after the 20 fixed bytes
    pub options: Vec<u8>,
}

#[derive(Clone, Debug, PartialEq, Eq, Hash, Serialize, Deserialize)]
pub struct Ip6 {
    pub tclass: u8,
    pub flow: u32,
    pub hop: u8,
    pub next: u8,
    pub src: [u8; 16],
    pub dst: [u8; 16],
}

#[derive(Clone, Debug, PartialEq, Eq, Hash, Serialize, Deserialize)]
pub enum Ip {
    V4(Ip4),
    V6(Ip6),
}

#[derive(Clone, Debug, PartialEq, Eq, Hash, Serialize, Deserialize)]
pub struct Tcp {
    pub sport: u16,
    pub dport: u16,
    pub seq: u32,
    pub ack: u32,
    /// data offset as written (None = 5 + options/4)
    pub doff: Option<u8>,
    pub flags: u8,
    pub window: u16,
    pub urg: u16,
    /// raw option bytes (callers pad to a multiple of 4 for well-formed packets)
    pub options: Vec<u8>,
    pub payload: Vec<u8>,
}

pub const FIN: u8 = 0x01;
pub const SYN: u8 = 0x02;
pub const RST: u8 = 0x04;
pub const PSH: u8 = 0x08;
pub const ACK: u8 = 0x10;
pub const URG: u8 = 0x20;
pub const ECE: u8 = 0x40;
pub const CWR: u8 = 0x80;

impl Default for Ip4 {
    fn default() -> Self {
        Ip4 {
            ihl: 5,
            tos: 0,
            id: 0x1234,
            flags: 0b010,
            frag_off: 0,
            ttl: 64,
            proto: 6,
            src: [10, 0, 0, 1],
            dst: [10, 0, 0, 2],
            options: vec![],
        }
    }
}
impl Default for Ip6 {
    fn default() -> Self {
        let mut src = [0u8; 16];
        let mut dst = [0u8; 16];
        src[0] = 0x20;
        src[1] = 0x01;
        src[15] = 1;
        dst[0] = 0x20;
        dst[1] = 0x01;
        dst[15] = 2;
        Ip6 { tclass: 0, flow: 0, hop: 64, next: 6, src, dst }
    }
}
impl Default for Tcp {
    fn default() -> Self {
        Tcp {
            sport: 40000,
            dport: 80,
            seq: 1000,
            ack: 0,
            doff: None,
            flags: SYN,
            window: 65535,
            urg: 0,
            options: vec![],
            payload: vec![],
        }
    }
}

impl Tcp {
    pub fn bytes(&self) -> Vec<u8> {
        let mut v = Vec::with_capacity(20 + self.options.len() + self.payload.len());
        v.extend_from_slice(&self.sport.to_be_bytes());
        v.extend_from_slice(&self.dport.to_be_bytes());
        v.extend_from_slice(&self.seq.to_be_bytes());
        v.extend_from_slice(&self.ack.to_be_bytes());
        let doff = self.doff.unwrap_or((5 + self.options.len() / 4) as u8) & 0x0f;
        v.push(doff << 4);
        v.push(self.flags);
        v.extend_from_slice(&self.window.to_be_bytes());
        v.extend_from_slice(&[0, 0]); // checksum (not verified by the analyzers)
        v.extend_from_slice(&self.urg.to_be_bytes());
        v.extend_from_slice(&self.options);
        v.extend_from_slice(&self.payload);
        v
    }
}

impl Ip4 {
    pub fn bytes(&self, l4: &[u8]) -> Vec<u8> {
        let mut v = Vec::with_capacity(20 + self.options.len() + l4.len());
        v.push(0x40 | (self.ihl & 0x0f));
        v.push(self.tos);
        let total = (20 + self.options.len() + l4.len()).min(65535) as u16;
        v.extend_from_slice(&total.to_be_bytes());
        v.extend_from_slice(&self.id.to_be_bytes());
        let ff = ((self.flags as u16 & 7) << 13) | (self.frag_off & 0x1fff);
        v.extend_from_slice(&ff.to_be_bytes());
        v.push(self.ttl);
        v.push(self.proto);
        v.extend_from_slice(&[0, 0]);
        v.extend_from_slice(&self.src);
        v.extend_from_slice(&self.dst);
        v.extend_from_slice(&self.options);
        v.extend_from_slice(l4);
        v
    }
}
impl Ip6 {
    pub fn bytes(&self, l4: &[u8]) -> Vec<u8> {
        let mut v = Vec::with_capacity(40 + l4.len());
        let w: u32 = (6u32 << 28) | ((self.tclass as u32) << 20) | (self.flow & 0xfffff);
        v.extend_from_slice(&w.to_be_bytes());
        v.extend_from_slice(&((l4.len().min(65535)) as u16).to_be_bytes());
        v.push(self.next);
        v.push(self.hop);
        v.extend_from_slice(&self.src);
        v.extend_from_slice(&self.dst);
        v.extend_from_slice(l4);
        v
    }
}
impl Ip {
    pub fn bytes(&self, l4: &[u8]) -> Vec<u8> {
        match self {
            Ip::V4(i) => i.bytes(l4),
            Ip::V6(i) => i.bytes(l4),
        }
    }
    pub fn is_v4(&self) -> bool {
        matches!(self, Ip::V4(_))
    }
    pub fn src(&self) -> IpAddr {
        match self {
            Ip::V4(i) => IpAddr::V4(Ipv4Addr::from(i.src)),
            Ip::V6(i) => IpAddr::V6(Ipv6Addr::from(i.src)),
        }
    }
    pub fn dst(&self) -> IpAddr {
        match self {
            Ip::V4(i) => IpAddr::V4(Ipv4Addr::from(i.dst)),
            Ip::V6(i) => IpAddr::V6(Ipv6Addr::from(i.dst)),
        }
    }
}

pub fn link_wrap(link: Link, v4: bool, ip_bytes: &[u8]) -> Vec<u8> {
    match link {
        Link::Ether => {
            let mut v = Vec::with_capacity(14 + ip_bytes.len());
            v.extend_from_slice(&[0x02, 0, 0, 0, 0, 0x02, 0x02, 0, 0, 0, 0, 0x01]);
            v.extend_from_slice(if v4 { &[0x08, 0x00] } else { &[0x86, 0xdd] });
            v.extend_from_slice(ip_bytes);
            v
        }
        Link::Raw => ip_bytes.to_vec(),
        Link::Null => {
            let mut v = Vec::with_capacity(4 + ip_bytes.len());
            v.extend_from_slice(&[0x1e, 0, 0, 0]);
            v.extend_from_slice(ip_bytes);
            v
        }
    }
}

pub fn frame(link: Link, ip: &Ip, tcp: &Tcp) -> Vec<u8> {
    let l4 = tcp.bytes();
    link_wrap(link, ip.is_v4(), &ip.bytes(&l4))
}

/// A raw-IP frame is *ambiguous* for the analyzers' Ethernet-first decoder when bytes 12..14 look like
/// an IP ethertype; generators keep raw-IP frames outside that class (soundness of the link choice).
pub fn raw_is_ambiguous(ip_bytes: &[u8]) -> bool {
    ip_bytes.len() >= 14
        && ((ip_bytes[12] == 0x08 && ip_bytes[13] == 0x00) || (ip_bytes[12] == 0x86 && ip_bytes[13] == 0xdd))
}

/// TCP option encoders
pub mod opt {
    pub fn eol() -> Vec<u8> {
        vec![0]
    }
    pub fn nop() -> Vec<u8> {
        vec![1]
    }
    pub fn mss(v: u16) -> Vec<u8> {
        vec![2, 4, (v >> 8) as u8, v as u8]
    }
    pub fn ws(s: u8) -> Vec<u8> {
        vec![3, 3, s]
    }
    pub fn sok() -> Vec<u8> {
        vec![4, 2]
    }
    pub fn sack(blocks: u8) -> Vec<u8> {
        let mut v = vec![5, 2 + 8 * blocks];
        v.extend(std::iter::repeat(0x11).take(8 * blocks as usize));
        v
    }
    pub fn ts(val: u32, ecr: u32) -> Vec<u8> {
        let mut v = vec![8, 10];
        v.extend_from_slice(&val.to_be_bytes());
        v.extend_from_slice(&ecr.to_be_bytes());
        v
    }
    pub fn unknown(kind: u8, data: &[u8]) -> Vec<u8> {
        let mut v = vec![kind, 2 + data.len() as u8];
        v.extend_from_slice(data);
        v
    }
    /// pad with NOPs to a multiple of 4
    pub fn pad_nop(mut v: Vec<u8>) -> Vec<u8> {
        while v.len() % 4 != 0 {
            v.push(1);
        }
        v
    }
}
