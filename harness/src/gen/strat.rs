//! proptest strategies shared by several properties.
use crate::gen::frames::{Ip, Ip4, Ip6, Link, Tcp};
use crate::model::tcp::{encode_opts, OptItem};
use crate::props::c03::TcpCase;
use proptest::collection::vec;
use proptest::prelude::*;

pub fn link() -> impl Strategy<Value = Link> {
    prop_oneof![3 => Just(Link::Ether), 1 => Just(Link::Raw), 1 => Just(Link::Null)]
}

pub fn u8_edge() -> impl Strategy<Value = u8> {
    prop_oneof![2 => Just(0u8), 1 => Just(1u8), 1 => Just(255u8), 6 => any::<u8>()]
}
pub fn u16_edge() -> impl Strategy<Value = u16> {
    prop_oneof![2 => Just(0u16), 1 => Just(1u16), 1 => Just(65535u16), 1 => (0u32..16).prop_map(|k| 1u16 << k), 6 => any::<u16>()]
}
pub fn u32_zero_or_any() -> impl Strategy<Value = u32> {
    prop_oneof![2 => Just(0u32), 1 => Just(u32::MAX), 5 => any::<u32>()]
}

fn fix_ambiguous(a: &mut [u8]) {
    // keep raw-IP / loopback frames outside the class the Ethernet-first decoder would misread
    if a.len() >= 2 && ((a[0] == 0x08 && a[1] == 0x00) || (a[0] == 0x86 && a[1] == 0xdd)) {
        a[0] ^= 0x01;
    }
}

pub fn ip4() -> impl Strategy<Value = Ip4> {
    (
        prop_oneof![3 => Just(5u8), 2 => 5u8..=15],
        any::<u8>(),
        prop_oneof![1 => Just(0u16), 2 => any::<u16>()],
        prop_oneof![3 => Just(0b010u8), 2 => Just(0b000u8), 1 => Just(0b110u8), 1 => Just(0b100u8)],
        any::<u8>(),
        any::<[u8; 4]>(),
        any::<[u8; 4]>(),
        any::<u8>(),
    )
        .prop_map(|(ihl, tos, id, flags, ttl, mut src, dst, fill)| {
            fix_ambiguous(&mut src);
            Ip4 { ihl, tos, id, flags, frag_off: 0, ttl, proto: 6, src, dst, options: vec![fill; (ihl as usize - 5) * 4] }
        })
}

pub fn ip6() -> impl Strategy<Value = Ip6> {
    (any::<u8>(), prop_oneof![2 => Just(0u32), 2 => 0u32..=0xfffff], any::<u8>(), any::<[u8; 16]>(), any::<[u8; 16]>()).prop_map(
        |(tclass, flow, hop, mut src, dst)| {
            fix_ambiguous(&mut src[0..2]);
            fix_ambiguous(&mut src[4..6]);
            Ip6 { tclass, flow, hop, next: 6, src, dst }
        },
    )
}

pub fn ip() -> impl Strategy<Value = Ip> {
    prop_oneof![3 => ip4().prop_map(Ip::V4), 2 => ip6().prop_map(Ip::V6)]
}

pub fn opt_item() -> impl Strategy<Value = OptItem> {
    prop_oneof![
        3 => Just(OptItem::Nop),
        3 => u16_edge().prop_map(OptItem::Mss),
        3 => prop_oneof![4 => 0u8..=14, 1 => 15u8..=255].prop_map(OptItem::Ws),
        3 => Just(OptItem::Sok),
        1 => (0u8..=3).prop_map(OptItem::Sack),
        3 => (u32_zero_or_any(), u32_zero_or_any()).prop_map(|(a, b)| OptItem::Ts(a, b)),
        1 => (prop_oneof![Just(6u8), Just(7u8), 9u8..=255], vec(any::<u8>(), 0..6)).prop_map(|(k, d)| OptItem::Unknown(k, d)),
        1 => Just(OptItem::Eol),
    ]
}

/// a well-formed option area: <= 40 bytes, multiple of four; padding by NOPs or by EOL + (zero | non-zero) filler
pub fn opt_items() -> impl Strategy<Value = Vec<OptItem>> {
    (vec(opt_item(), 0..10), 0u8..6).prop_map(|(mut items, pad)| {
        // keep only items up to the first generated EOL (an EOL in the middle is produced by the padding step)
        if let Some(p) = items.iter().position(|i| *i == OptItem::Eol) {
            items.truncate(p);
        }
        while encode_opts(&items).len() > 40 {
            items.pop();
        }
        let len = encode_opts(&items).len();
        let rem = (4 - len % 4) % 4;
        match pad {
            0 | 1 | 2 => {
                for _ in 0..rem {
                    items.push(OptItem::Nop);
                }
            }
            3 | 4 => {
                // EOL then zero bytes (each zero byte is itself an EOL kind)
                let extra = if pad == 4 && len + rem + 4 <= 40 { 4 } else { 0 };
                let total = if rem == 0 && extra == 0 { if len + 4 <= 40 { 4 } else { 0 } } else { rem + extra };
                for _ in 0..total {
                    items.push(OptItem::Eol);
                }
            }
            _ => {
                // EOL then non-zero filler (NOPs): trailing non-zero data
                let total = if rem == 0 { if len + 4 <= 40 { 4 } else { 0 } } else { rem };
                if total > 0 {
                    items.push(OptItem::Eol);
                    for _ in 1..total {
                        items.push(OptItem::Nop);
                    }
                }
            }
        }
        items
    })
}

/// malformed tails appended to a well-formed prefix
pub fn malformed_tail() -> impl Strategy<Value = Vec<u8>> {
    prop_oneof![
        // length byte 0 or 1 on a kind that needs a length
        (2u8..=255, 0u8..2, vec(any::<u8>(), 0..6)).prop_map(|(k, l, mut rest)| {
            let mut v = vec![k, l];
            v.append(&mut rest);
            v
        }),
        // length running past the area
        (2u8..=255, 12u8..=255).prop_map(|(k, l)| vec![k, l, 1, 2]),
        // fixed-size option with a wrong (short) length
        prop_oneof![Just(vec![2u8, 3, 5]), Just(vec![2u8, 2]), Just(vec![3u8, 2]), Just(vec![8u8, 6, 0, 0, 0, 1]), Just(vec![8u8, 2]), Just(vec![4u8, 3, 0])],
        // a lone kind byte at the very end
        (2u8..=255).prop_map(|k| vec![k]),
    ]
}

pub fn tcp_fields() -> impl Strategy<Value = Tcp> {
    (
        any::<u16>(),
        any::<u16>(),
        u32_zero_or_any(),
        u32_zero_or_any(),
        prop_oneof![3 => Just(0x02u8), 2 => Just(0x12u8), 1 => Just(0x10u8), 1 => Just(0x18u8), 4 => any::<u8>()],
        u16_edge(),
        prop_oneof![3 => Just(0u16), 1 => any::<u16>()],
        prop_oneof![3 => Just(vec![]), 1 => vec(any::<u8>(), 1..24)],
    )
        .prop_map(|(sport, dport, seq, ack, flags, window, urg, payload)| Tcp { sport, dport, seq, ack, doff: None, flags, window, urg, options: vec![], payload })
}

pub fn tcp_case(malformed: bool) -> impl Strategy<Value = TcpCase> {
    (link(), ip(), tcp_fields(), opt_items(), malformed_tail()).prop_map(move |(link, ip, tcp, mut opts, tail)| {
        let mut raw_tail = vec![];
        if malformed {
            // drop everything from the first EOL on, then append the malformed tail and pad to 4 with zeros
            if let Some(p) = opts.iter().position(|i| *i == OptItem::Eol) {
                opts.truncate(p);
            }
            while encode_opts(&opts).len() + tail.len() > 40 {
                if opts.pop().is_none() {
                    break;
                }
            }
            raw_tail = tail;
            raw_tail.truncate(40);
            while (encode_opts(&opts).len() + raw_tail.len()) % 4 != 0 {
                raw_tail.push(0);
            }
        }
        // a third of the Ethernet frames look as on the wire (padding to 60 bytes, or padding + FCS), derived from generated bits
        let wire = (tcp.seq ^ tcp.ack) as u8 % 6;
        TcpCase { link, ip, tcp, opts, raw_tail, wire: if wire < 3 { 0 } else { wire } }
    })
}
