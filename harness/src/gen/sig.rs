//! Serializable mirrors of the db crate's signature / observation types + proptest strategies over the whole
//! p0f vocabulary.
use huginn_net_db::http as dh;
use huginn_net_db::observable_signals::{HttpRequestObservation, HttpResponseObservation, TcpObservation};
use huginn_net_db::tcp as dt;
use proptest::collection::vec;
use proptest::prelude::*;
use serde::{Deserialize, Serialize};

#[derive(Clone, Copy, Debug, PartialEq, Eq, Hash, Serialize, Deserialize)]
pub enum TtlS {
    Value(u8),
    Distance(u8, u8),
    Guess(u8),
    Bad(u8),
}
#[derive(Clone, Copy, Debug, PartialEq, Eq, Hash, Serialize, Deserialize)]
pub enum WinS {
    Mss(u8),
    Mtu(u8),
    Value(u16),
    Mod(u16),
    Any,
}
#[derive(Clone, Copy, Debug, PartialEq, Eq, Hash, Serialize, Deserialize)]
pub enum OptS {
    Eol(u8),
    Nop,
    Mss,
    Ws,
    Sok,
    Sack,
    Ts,
    Unknown(u8),
}
pub const QUIRKS: [&str; 17] = ["df", "id+", "id-", "ecn", "0+", "flow", "seq-", "ack+", "ack-", "uptr+", "urgf+", "pushf+", "ts1-", "ts2+", "opt+", "exws", "bad"];

#[derive(Clone, Debug, PartialEq, Eq, Hash, Serialize, Deserialize)]
pub struct TcpSigS {
    /// 4, 6 or 0 (= any)
    pub ver: u8,
    pub ittl: TtlS,
    pub olen: u8,
    pub mss: Option<u16>,
    pub wsize: WinS,
    pub wscale: Option<u8>,
    pub olayout: Vec<OptS>,
    /// indices into QUIRKS
    pub quirks: Vec<u8>,
    /// 0 zero, 1 non-zero, 2 any
    pub pclass: u8,
}

pub fn quirk_db(i: u8) -> dt::Quirk {
    use dt::Quirk::*;
    match i % 17 {
        0 => Df,
        1 => NonZeroID,
        2 => ZeroID,
        3 => Ecn,
        4 => MustBeZero,
        5 => FlowID,
        6 => SeqNumZero,
        7 => AckNumNonZero,
        8 => AckNumZero,
        9 => NonZeroURG,
        10 => Urg,
        11 => Push,
        12 => OwnTimestampZero,
        13 => PeerTimestampNonZero,
        14 => TrailinigNonZero,
        15 => ExcessiveWindowScaling,
        _ => OptBad,
    }
}

impl TtlS {
    pub fn db(self) -> dt::Ttl {
        match self {
            TtlS::Value(a) => dt::Ttl::Value(a),
            TtlS::Distance(a, b) => dt::Ttl::Distance(a, b),
            TtlS::Guess(a) => dt::Ttl::Guess(a),
            TtlS::Bad(a) => dt::Ttl::Bad(a),
        }
    }
}
impl WinS {
    pub fn db(self) -> dt::WindowSize {
        match self {
            WinS::Mss(a) => dt::WindowSize::Mss(a),
            WinS::Mtu(a) => dt::WindowSize::Mtu(a),
            WinS::Value(a) => dt::WindowSize::Value(a),
            WinS::Mod(a) => dt::WindowSize::Mod(a),
            WinS::Any => dt::WindowSize::Any,
        }
    }
}
impl OptS {
    pub fn db(self) -> dt::TcpOption {
        use dt::TcpOption as T;
        match self {
            OptS::Eol(n) => T::Eol(n),
            OptS::Nop => T::Nop,
            OptS::Mss => T::Mss,
            OptS::Ws => T::Ws,
            OptS::Sok => T::Sok,
            OptS::Sack => T::Sack,
            OptS::Ts => T::TS,
            OptS::Unknown(n) => T::Unknown(n),
        }
    }
}
pub fn ver_db(v: u8) -> dt::IpVersion {
    match v {
        4 => dt::IpVersion::V4,
        6 => dt::IpVersion::V6,
        _ => dt::IpVersion::Any,
    }
}
pub fn pclass_db(p: u8) -> dt::PayloadSize {
    match p {
        0 => dt::PayloadSize::Zero,
        1 => dt::PayloadSize::NonZero,
        _ => dt::PayloadSize::Any,
    }
}

impl TcpSigS {
    pub fn db(&self) -> dt::Signature {
        dt::Signature {
            version: ver_db(self.ver),
            ittl: self.ittl.db(),
            olen: self.olen,
            mss: self.mss,
            wsize: self.wsize.db(),
            wscale: self.wscale,
            olayout: self.olayout.iter().map(|o| o.db()).collect(),
            quirks: self.quirks.iter().map(|q| quirk_db(*q)).collect(),
            pclass: pclass_db(self.pclass),
        }
    }
    pub fn obs(&self) -> TcpObservation {
        let s = self.db();
        TcpObservation { version: s.version, ittl: s.ittl, olen: s.olen, mss: s.mss, wsize: s.wsize, wscale: s.wscale, olayout: s.olayout, quirks: s.quirks, pclass: s.pclass }
    }
}

#[derive(Clone, Debug, PartialEq, Eq, Hash, Serialize, Deserialize)]
pub struct HdrS {
    pub optional: bool,
    pub name: String,
    pub value: Option<String>,
}
#[derive(Clone, Debug, PartialEq, Eq, Hash, Serialize, Deserialize)]
pub struct HttpSigS {
    /// 0 = HTTP/1.0, 1 = HTTP/1.1, 2 = HTTP/2, 3 = HTTP/3, 9 = any
    pub version: u8,
    pub horder: Vec<HdrS>,
    pub habsent: Vec<HdrS>,
    pub expsw: String,
}
pub fn hver_db(v: u8) -> dh::Version {
    match v {
        0 => dh::Version::V10,
        1 => dh::Version::V11,
        2 => dh::Version::V20,
        3 => dh::Version::V30,
        _ => dh::Version::Any,
    }
}
impl HdrS {
    pub fn db(&self) -> dh::Header {
        dh::Header { optional: self.optional, name: self.name.clone(), value: self.value.clone() }
    }
}
impl HttpSigS {
    pub fn db(&self) -> dh::Signature {
        dh::Signature { version: hver_db(self.version), horder: self.horder.iter().map(|h| h.db()).collect(), habsent: self.habsent.iter().map(|h| h.db()).collect(), expsw: self.expsw.clone() }
    }
    pub fn req(&self) -> HttpRequestObservation {
        let s = self.db();
        HttpRequestObservation { version: s.version, horder: s.horder, habsent: s.habsent, expsw: s.expsw }
    }
    pub fn resp(&self) -> HttpResponseObservation {
        let s = self.db();
        HttpResponseObservation { version: s.version, horder: s.horder, habsent: s.habsent, expsw: s.expsw }
    }
}

// ------------------------------------------------------------------------------------------------
// strategies
// ------------------------------------------------------------------------------------------------
pub fn u8b() -> impl Strategy<Value = u8> {
    prop_oneof![1 => Just(0u8), 1 => Just(255u8), 2 => prop_oneof![Just(32u8), Just(64u8), Just(128u8)], 4 => any::<u8>()]
}
pub fn ttl_sig() -> impl Strategy<Value = TtlS> {
    prop_oneof![5 => u8b().prop_map(TtlS::Value), 1 => u8b().prop_map(TtlS::Bad), 1 => u8b().prop_map(TtlS::Guess), 1 => (u8b(), 0u8..=40).prop_map(|(a, b)| TtlS::Distance(a, b))]
}
pub fn win_any_form() -> impl Strategy<Value = WinS> {
    prop_oneof![
        2 => any::<u8>().prop_map(WinS::Mss),
        2 => any::<u8>().prop_map(WinS::Mtu),
        3 => prop_oneof![Just(0u16), Just(8192u16), Just(65535u16), any::<u16>()].prop_map(WinS::Value),
        2 => prop_oneof![Just(256u16), Just(512u16), Just(1024u16), Just(2048u16), Just(4096u16), any::<u16>()].prop_map(WinS::Mod),
        2 => Just(WinS::Any),
    ]
}
pub fn opt_s() -> impl Strategy<Value = OptS> {
    prop_oneof![
        1 => any::<u8>().prop_map(OptS::Eol),
        3 => Just(OptS::Nop),
        3 => Just(OptS::Mss),
        3 => Just(OptS::Ws),
        3 => Just(OptS::Sok),
        1 => Just(OptS::Sack),
        3 => Just(OptS::Ts),
        1 => any::<u8>().prop_map(OptS::Unknown),
    ]
}
pub fn tcp_sig() -> impl Strategy<Value = TcpSigS> {
    (
        prop_oneof![Just(4u8), Just(6u8), Just(0u8)],
        ttl_sig(),
        prop_oneof![3 => Just(0u8), 1 => any::<u8>()],
        proptest::option::weighted(0.5, prop_oneof![Just(1460u16), Just(0u16), Just(65535u16), any::<u16>()]),
        win_any_form(),
        proptest::option::weighted(0.5, prop_oneof![0u8..=14, any::<u8>()]),
        vec(opt_s(), 1..8),
        vec(0u8..17, 0..6),
        0u8..3,
    )
        .prop_map(|(ver, ittl, olen, mss, wsize, wscale, olayout, quirks, pclass)| TcpSigS { ver, ittl, olen, mss, wsize, wscale, olayout, quirks, pclass })
}

pub fn header_name() -> impl Strategy<Value = String> {
    prop_oneof![
        6 => prop_oneof![
            Just("Host"), Just("User-Agent"), Just("Accept"), Just("Accept-Language"), Just("Accept-Encoding"), Just("Accept-Charset"), Just("Keep-Alive"),
            Just("Connection"), Just("Cookie"), Just("Referer"), Just("Cache-Control"), Just("Content-Type"), Just("Content-Length"), Just("Server"), Just("Date"),
            Just("ETag"), Just("Last-Modified"), Just("Accept-Ranges"), Just("Via"), Just("X-Forwarded-For")
        ].prop_map(|s| s.to_string()),
        2 => "[A-Za-z][A-Za-z0-9-]{0,12}",
    ]
}
pub fn header_value() -> impl Strategy<Value = String> {
    prop_oneof![
        3 => prop_oneof![Just("keep-alive"), Just("*/*"), Just("gzip,deflate"), Just("en-us,en;q=0.5"), Just("text/html; charset=utf-8"), Just("300")].prop_map(|s| s.to_string()),
        2 => "[ -\\\\^-~]{0,24}", // printable ASCII without ']'
        1 => "[a-zéü ,;=:.*/-]{0,12}",
    ]
}
pub fn hdr_s(allow_optional: bool) -> impl Strategy<Value = HdrS> {
    (proptest::bool::weighted(if allow_optional { 0.3 } else { 0.0 }), header_name(), proptest::option::weighted(0.6, header_value())).prop_map(|(optional, name, value)| HdrS { optional, name, value })
}
pub fn software() -> impl Strategy<Value = String> {
    prop_oneof![
        2 => Just(String::new()),
        3 => prop_oneof![Just("Firefox/"), Just("MSIE 8"), Just("Apache"), Just("nginx"), Just("Chrome/"), Just("(compatible; Baiduspider")].prop_map(|s| s.to_string()),
        2 => "[!-~][ -~]{0,20}[!-~]",
    ]
}
pub fn http_sig() -> impl Strategy<Value = HttpSigS> {
    (prop_oneof![Just(0u8), Just(1u8), Just(9u8)], vec(hdr_s(true), 1..10), vec(hdr_s(false).prop_map(|mut h| { h.value = None; h }), 0..5), software())
        .prop_map(|(version, horder, habsent, expsw)| HttpSigS { version, horder, habsent, expsw })
}
