//! Connection synthesiser: complete connections (handshake with timestamps + payload script) and traces
//! (order-preserving interleavings of several connections).
use crate::gen::frames::{self as fr, frame, Ip, Ip4, Ip6, Link, Tcp};
use crate::gen::{http1, tls};
use crate::model::tcp::{encode_opts, OptItem};
use crate::props::c08::cut_positions;
use crate::props::c16::H2Case;
use proptest::collection::vec;
use proptest::prelude::*;
use serde::{Deserialize, Serialize};

#[derive(Clone, Debug, Serialize, Deserialize, Hash)]
pub enum Script {
    /// handshake only
    None,
    Http1 { req: http1::Request, resp: http1::Response, resp_body: Vec<u8> },
    Http2 { req: H2Case, resp: H2Case },
    Tls { hello: tls::Hello, after: Vec<u8> },
    Opaque { c2s: Vec<u8>, s2c: Vec<u8> },
}

#[derive(Clone, Debug, Serialize, Deserialize, Hash)]
pub struct Conn {
    pub v4: bool,
    /// indices into the address pool, and ports
    pub c_addr: u8,
    pub s_addr: u8,
    pub c_port: u16,
    pub s_port: u16,
    pub script: Script,
    pub c_cuts: Vec<u16>,
    pub s_cuts: Vec<u16>,
    pub c_isn: u32,
    pub s_isn: u32,
    pub c_ttl: u8,
    pub s_ttl: u8,
    /// timestamps: (client base TSval, client rate Hz, server base, server rate); None = no TS option
    pub ts: Option<(u32, u16, u32, u16)>,
    /// ms between consecutive packets of this connection
    pub gap_ms: u16,
    pub fin: bool,
    pub window: u16,
}

#[derive(Clone, Debug)]
pub struct Packet {
    pub conn: usize,
    pub from_client: bool,
    pub frame: Vec<u8>,
    /// arrival time (ms) to inject through hook H1
    pub at: u64,
    pub tsval: Option<u32>,
    pub payload_len: usize,
}

pub fn addr4(i: u8) -> [u8; 4] {
    [[10, 0, 0, 1], [10, 0, 0, 2], [10, 0, 1, 1], [172, 16, 5, 9], [192, 168, 1, 77], [203, 0, 113, 5]][i as usize % 6]
}
pub fn addr6(i: u8) -> [u8; 16] {
    // the upper half of the pool: IPv4-mapped forms (::ffff:a.b.c.d) of the IPv4 pool - IPv6 endpoints for every decoder, whatever
    // a component that reads addresses on its own makes of them
    if i % 12 >= 6 {
        let mut a = [0u8; 16];
        a[10] = 0xff;
        a[11] = 0xff;
        a[12..].copy_from_slice(&addr4(i));
        return a;
    }
    let mut a = [0u8; 16];
    a[0] = 0x20;
    a[1] = 0x01;
    a[2] = 0x0d;
    a[3] = 0xb8;
    a[15] = 1 + (i % 6);
    a
}

impl Conn {
    fn pool(&self) -> u8 {
        if self.v4 { 6 } else { 12 }
    }
    pub fn key(&self) -> (bool, u8, u16, u8, u16) {
        (self.v4, self.c_addr % self.pool(), self.c_port, self.s_addr % self.pool(), self.s_port)
    }
    pub fn rkey(&self) -> (bool, u8, u16, u8, u16) {
        (self.v4, self.s_addr % self.pool(), self.s_port, self.c_addr % self.pool(), self.c_port)
    }
    pub fn ips(&self) -> (Ip, Ip) {
        if self.v4 {
            (
                Ip::V4(Ip4 { src: addr4(self.c_addr), dst: addr4(self.s_addr), ttl: self.c_ttl, id: 0x1000u16.wrapping_add(self.c_port) | 1, ..Ip4::default() }),
                Ip::V4(Ip4 { src: addr4(self.s_addr), dst: addr4(self.c_addr), ttl: self.s_ttl, id: 0, flags: 0b010, ..Ip4::default() }),
            )
        } else {
            (
                Ip::V6(Ip6 { src: addr6(self.c_addr), dst: addr6(self.s_addr), hop: self.c_ttl, ..Ip6::default() }),
                Ip::V6(Ip6 { src: addr6(self.s_addr), dst: addr6(self.c_addr), hop: self.s_ttl, ..Ip6::default() }),
            )
        }
    }
    pub fn streams(&self) -> (Vec<u8>, Vec<u8>) {
        match &self.script {
            Script::None => (vec![], vec![]),
            Script::Http1 { req, resp, resp_body } => {
                let mut s = resp.head();
                s.extend_from_slice(resp_body);
                (req.head(), s)
            }
            Script::Http2 { req, resp } => (req.bytes(), resp.bytes()),
            Script::Tls { hello, after } => {
                let mut c = hello.record();
                c.extend_from_slice(after);
                (c, vec![0x16, 3, 3, 0, 4, 2, 0, 0, 0])
            }
            Script::Opaque { c2s, s2c } => (c2s.clone(), s2c.clone()),
        }
    }
    /// all packets of this connection in order; `t0` start time, `uniq` distinguishes TSvals between connections
    pub fn packets(&self, idx: usize, link: Link, t0: u64) -> Vec<Packet> {
        let (cip, sip) = self.ips();
        let (cs, ss) = self.streams();
        let mut out: Vec<Packet> = vec![];
        let mut t = t0;
        let mut k = 0u64;
        let tsopt = |client: bool, k: u64, echo: u32| -> (Vec<u8>, Option<u32>) {
            match self.ts {
                None => (vec![], None),
                Some((cb, cr, sb, sr)) => {
                    let (base, rate) = if client { (cb, cr) } else { (sb, sr) };
                    let elapsed = k * self.gap_ms as u64;
                    // unique per connection and direction: low bits carry the packet counter
                    // + k: strictly increasing per connection and direction, so that TSvals are unique keys of the clock table
                    let v = base.wrapping_add(((elapsed * rate as u64) / 1000) as u32).wrapping_add(k as u32);
                    (encode_opts(&[OptItem::Nop, OptItem::Nop, OptItem::Ts(v, echo)]), Some(v))
                }
            }
        };
        let mut push = |from_client: bool, tcp: Tcp, tsval: Option<u32>, t: u64| {
            let ip = if from_client { &cip } else { &sip };
            let payload_len = tcp.payload.len();
            out.push(Packet { conn: idx, from_client, frame: frame(link, ip, &tcp), at: t, tsval, payload_len });
        };
        // SYN
        let syn_opts = |client: bool, k: u64| -> (Vec<u8>, Option<u32>) {
            match self.ts {
                // one timestamp-less connection in five opens with bare 20-byte TCP headers (no options at all): the smallest
                // segments there are - 40 bytes of IPv4 - for everything that checks lengths before it reads ports
                None if self.window % 5 == 0 => (vec![], None),
                None => (encode_opts(&[OptItem::Mss(1460), OptItem::Nop, OptItem::Ws(7), OptItem::Nop, OptItem::Nop, OptItem::Sok]), None),
                Some(_) => {
                    let (o, v) = tsopt(client, k, if client { 0 } else { 1 });
                    let ts_item = OptItem::Ts(v.unwrap(), if client { 0 } else { 7 });
                    let _ = o;
                    (encode_opts(&[OptItem::Mss(1460), OptItem::Sok, ts_item, OptItem::Nop, OptItem::Ws(7)]), v)
                }
            }
        };
        let (o, v) = syn_opts(true, k);
        push(true, Tcp { sport: self.c_port, dport: self.s_port, seq: self.c_isn, ack: 0, flags: fr::SYN, window: self.window, options: o, ..Tcp::default() }, v, t);
        k += 1;
        t += self.gap_ms as u64;
        let (o, v) = syn_opts(false, k);
        push(false, Tcp { sport: self.s_port, dport: self.c_port, seq: self.s_isn, ack: self.c_isn.wrapping_add(1), flags: fr::SYN | fr::ACK, window: 28960, options: o, ..Tcp::default() }, v, t);
        k += 1;
        t += self.gap_ms as u64;
        let (o, v) = tsopt(true, k, 1);
        push(true, Tcp { sport: self.c_port, dport: self.s_port, seq: self.c_isn.wrapping_add(1), ack: self.s_isn.wrapping_add(1), flags: fr::ACK, window: self.window, options: o, ..Tcp::default() }, v, t);
        k += 1;
        t += self.gap_ms as u64;
        // data
        let segs = |stream: &[u8], cuts: &[u16]| -> Vec<(usize, usize)> {
            if stream.is_empty() {
                return vec![];
            }
            let mut pos = cut_positions(cuts, stream.len());
            // keep segments below the 64 KiB frame bound
            let mut all = vec![];
            let mut prev = 0;
            pos.push(stream.len());
            for p in pos {
                let mut a = prev;
                while p - a > 16000 {
                    all.push((a, a + 16000));
                    a += 16000;
                }
                if p > a {
                    all.push((a, p));
                }
                prev = p;
            }
            all
        };
        for (a, b) in segs(&cs, &self.c_cuts) {
            let (o, v) = tsopt(true, k, 1);
            push(true, Tcp { sport: self.c_port, dport: self.s_port, seq: self.c_isn.wrapping_add(1).wrapping_add(a as u32), ack: self.s_isn.wrapping_add(1), flags: fr::ACK | fr::PSH, window: self.window, options: o, payload: cs[a..b].to_vec(), ..Tcp::default() }, v, t);
            k += 1;
            t += self.gap_ms as u64;
        }
        for (a, b) in segs(&ss, &self.s_cuts) {
            let (o, v) = tsopt(false, k, 1);
            push(false, Tcp { sport: self.s_port, dport: self.c_port, seq: self.s_isn.wrapping_add(1).wrapping_add(a as u32), ack: self.c_isn.wrapping_add(1).wrapping_add(cs.len() as u32), flags: fr::ACK | fr::PSH, window: 28960, options: o, payload: ss[a..b].to_vec(), ..Tcp::default() }, v, t);
            k += 1;
            t += self.gap_ms as u64;
        }
        if self.fin {
            let (o, v) = tsopt(true, k, 1);
            push(true, Tcp { sport: self.c_port, dport: self.s_port, seq: self.c_isn.wrapping_add(1).wrapping_add(cs.len() as u32), ack: self.s_isn.wrapping_add(1).wrapping_add(ss.len() as u32), flags: fr::ACK | fr::FIN, window: self.window, options: o, ..Tcp::default() }, v, t);
        }
        out
    }
}

#[derive(Clone, Debug, Serialize, Deserialize, Hash)]
pub struct TraceCase {
    pub conns: Vec<Conn>,
    /// schedule: each entry selects (monotone map) which connection with packets left advances next
    pub schedule: Vec<u16>,
    pub link: Link,
    /// Ethernet address pair of every frame (Ethernet link only): 0 = plain, 1 = addresses whose bytes read like an IPv4 header
    /// carrying TCP, 2 = like an IPv6 header carrying TCP (a decoder that tried raw IP before Ethernet would be misled)
    #[serde(default)]
    pub macs: u8,
    /// Ethernet link only: 0 = frames as built, 1 = zero padding up to the 60-byte minimum frame size, 2 = padding + 4-byte FCS
    #[serde(default)]
    pub wire: u8,
    /// IPv4 only: fragment-offset field written into every packet (0 = not fragmented). The analyzers' decoders do not look at it,
    /// so the results are the same; components that read the header on their own (filters, dispatch hashers) must agree
    #[serde(default)]
    pub frag: u16,
    /// IPv4 only: IP options written into the packets after they were built. 0 = none, 1 = the same 4-byte option (router alert) on
    /// every packet, 2 = on every other packet of each connection (the header length varies inside one flow), 3 = an 8-byte option whose
    /// content changes from packet to packet. Analyzers report the same payload-level results; components that find the TCP header on their
    /// own (filters, dispatch hashers) must follow the header length
    #[serde(default)]
    pub ipopt: u8,
}

/// insert `opts` (a multiple of 4 bytes) behind the fixed IPv4 header at `off`, fixing IHL, total length and header checksum
pub fn insert_ip_options(f: &mut Vec<u8>, off: usize, opts: &[u8]) {
    if f.len() < off + 20 || f[off] >> 4 != 4 || f[off] & 0x0f != 5 || opts.len() % 4 != 0 {
        return;
    }
    let total = u16::from_be_bytes([f[off + 2], f[off + 3]]) as usize + opts.len();
    if total > 65535 {
        return;
    }
    let tail = f.split_off(off + 20);
    f.extend_from_slice(opts);
    f.extend_from_slice(&tail);
    f[off] = 0x40 | (5 + opts.len() / 4) as u8;
    f[off + 2] = (total >> 8) as u8;
    f[off + 3] = total as u8;
    f[off + 10] = 0;
    f[off + 11] = 0;
    let ihl = 20 + opts.len();
    let mut sum = 0u32;
    for k in (0..ihl).step_by(2) {
        sum += u16::from_be_bytes([f[off + k], f[off + k + 1]]) as u32;
    }
    while sum >> 16 != 0 {
        sum = (sum & 0xffff) + (sum >> 16);
    }
    let c = !(sum as u16);
    f[off + 10] = (c >> 8) as u8;
    f[off + 11] = c as u8;
}

impl TraceCase {
    /// per-connection packet lists
    pub fn per_conn(&self) -> Vec<Vec<Packet>> {
        let mut lists: Vec<Vec<Packet>> = self.conns.iter().enumerate().map(|(i, c)| c.packets(i, self.link, 1_000_000 + i as u64 * 37)).collect();
        if self.link == Link::Ether && self.macs % 3 != 0 {
            let pair: [u8; 12] = if self.macs % 3 == 1 { [0x45, 0x00, 0x00, 0x28, 0x00, 0x00, 0x40, 0x00, 0x40, 0x06, 0x00, 0x00] } else { [0x60, 0x00, 0x00, 0x00, 0x00, 0x14, 0x06, 0x40, 0x20, 0x01, 0x0d, 0xb8] };
            for l in lists.iter_mut() {
                for p in l.iter_mut() {
                    if p.frame.len() >= 14 {
                        p.frame[..12].copy_from_slice(&pair);
                    }
                }
            }
        }
        if self.ipopt % 4 != 0 && self.link != Link::Null {
            let off = if self.link == Link::Ether { 14 } else { 0 };
            for l in lists.iter_mut() {
                for (n, p) in l.iter_mut().enumerate() {
                    match self.ipopt % 4 {
                        1 => insert_ip_options(&mut p.frame, off, &[0x94, 0x04, 0x00, 0x00]),
                        2 => {
                            if n % 2 == 1 {
                                insert_ip_options(&mut p.frame, off, &[0x94, 0x04, 0x00, 0x00])
                            }
                        }
                        _ => {
                            let k = (n as u32).wrapping_mul(0x9e37_79b9) ^ 0x5bd1_e995;
                            insert_ip_options(&mut p.frame, off, &[0x44, 0x08, 0x05, 0x00, (k >> 24) as u8, (k >> 16) as u8, (k >> 8) as u8, k as u8])
                        }
                    }
                }
            }
        }
        if self.frag & 0x1fff != 0 && self.link != Link::Null {
            let off = if self.link == Link::Ether { 14 } else { 0 };
            for l in lists.iter_mut() {
                for p in l.iter_mut() {
                    let f = &mut p.frame;
                    if f.len() >= off + 20 && f[off] >> 4 == 4 {
                        let flags = f[off + 6] & 0xe0;
                        f[off + 6] = flags | ((self.frag >> 8) as u8 & 0x1f);
                        f[off + 7] = self.frag as u8;
                        // header checksum
                        let ihl = ((f[off] & 0x0f) as usize * 4).max(20).min(f.len() - off);
                        f[off + 10] = 0;
                        f[off + 11] = 0;
                        let mut sum = 0u32;
                        for k in (0..ihl).step_by(2) {
                            sum += u16::from_be_bytes([f[off + k], *f.get(off + k + 1).unwrap_or(&0)]) as u32;
                        }
                        while sum >> 16 != 0 {
                            sum = (sum & 0xffff) + (sum >> 16);
                        }
                        let c = !(sum as u16);
                        f[off + 10] = (c >> 8) as u8;
                        f[off + 11] = c as u8;
                    }
                }
            }
        }
        if self.link == Link::Ether && self.wire % 3 != 0 {
            for l in lists.iter_mut() {
                for p in l.iter_mut() {
                    if p.frame.len() < 60 {
                        p.frame.resize(60, 0);
                    }
                    if self.wire % 3 == 2 {
                        p.frame.extend_from_slice(&[0xde, 0xad, 0xbe, 0xef]);
                    }
                }
            }
        }
        lists
    }
    /// the interleaved trace (order-preserving per connection)
    pub fn interleaved(&self) -> Vec<Packet> {
        let lists = self.per_conn();
        let mut its: Vec<std::collections::VecDeque<Packet>> = lists.into_iter().map(|l| l.into()).collect();
        let mut out = vec![];
        let mut s = 0usize;
        loop {
            let alive: Vec<usize> = (0..its.len()).filter(|i| !its[*i].is_empty()).collect();
            if alive.is_empty() {
                break;
            }
            let sel = self.schedule.get(s).copied().unwrap_or((s as u16).wrapping_mul(40503));
            s += 1;
            let i = alive[crate::engine::idx(sel, alive.len())];
            out.push(its[i].pop_front().unwrap());
        }
        out
    }
}

pub fn script(allow_h2: bool) -> impl Strategy<Value = Script> {
    let h2: BoxedStrategy<Script> = if allow_h2 {
        (crate::props::c09::exchange(), prop_oneof![4 => Just(0u8), 1 => prop_oneof![Just(0x08u8), Just(0x20u8), Just(0x28u8), Just(0x04u8), Just(0x0cu8)]], any::<bool>())
            .prop_map(|(e, xor, on_response)| match e {
                // a fifth of the HTTP/2 connections carry a HEADERS frame whose flags claim octets that are not there
                // (PADDED / PRIORITY without their fields: the first block octets are then read as pad length / dependency)
                crate::props::c09::Exchange::H2 { mut req, mut resp } => {
                    if on_response {
                        resp.flag_xor = xor;
                    } else {
                        req.flag_xor = xor;
                    }
                    Script::Http2 { req, resp }
                }
                crate::props::c09::Exchange::H1 { req, resp, resp_body, .. } => Script::Http1 { req, resp, resp_body },
            })
            .boxed()
    } else {
        Just(Script::None).boxed()
    };
    prop_oneof![
        2 => Just(Script::None),
        3 => (http1::request(), http1::response(), http1::body()).prop_map(|(mut req, mut resp, resp_body)| { req.headers.truncate(20); resp.headers.truncate(20); Script::Http1 { req, resp, resp_body } }),
        3 => h2,
        3 => (tls::hello(), prop_oneof![3 => Just(vec![]), 2 => Just(vec![0x14, 3, 3, 0, 1, 1]), 3 => vec(any::<u8>(), 1..30).prop_map(|mut v| { v[0] = 0x17; v }),
            // a mixed connection: cleartext HTTP after the ClientHello (what each analyzer keeps of the hello decides what it makes of the request)
            2 => Just(b"GET /after-hello HTTP/1.1\r\nHost: mixed.test\r\nUser-Agent: curl/8.0\r\nAccept: */*\r\n\r\n".to_vec())]).prop_map(|(mut hello, after)| {
            // keep records inside the RFC fragment limit so that the hello is reportable
            if let Some(e) = hello.extensions.as_mut() { e.truncate(25); }
            hello.ciphers.truncate(60);
            Script::Tls { hello, after }
        }),
        1 => (vec(any::<u8>(), 0..200), vec(any::<u8>(), 0..200)).prop_map(|(c2s, s2c)| Script::Opaque { c2s, s2c }),
    ]
}

pub fn conn(allow_h2: bool) -> impl Strategy<Value = Conn> {
    (
        (proptest::bool::weighted(0.75), prop_oneof![4 => 0u8..6, 1 => 6u8..12], prop_oneof![4 => 0u8..6, 1 => 6u8..12], prop_oneof![Just(40000u16), Just(40001u16), Just(1025u16), Just(50000u16), 1024u16..65535], prop_oneof![Just(80u16), Just(443u16), Just(8080u16), Just(1024u16)]),
        script(allow_h2),
        vec(any::<u16>(), 0..4),
        vec(any::<u16>(), 0..4),
        (any::<u32>(), any::<u32>()),
        (prop_oneof![Just(64u8), Just(128u8), Just(57u8), Just(255u8), 1u8..=255], prop_oneof![Just(64u8), Just(52u8), 1u8..=255]),
        proptest::option::weighted(0.7, (any::<u32>(), prop_oneof![Just(1000u16), Just(100u16), Just(250u16), 1u16..1500], any::<u32>(), prop_oneof![Just(1000u16), Just(100u16), 1u16..1500])),
        prop_oneof![Just(30u16), Just(100u16), 1u16..400],
        proptest::bool::weighted(0.3),
        prop_oneof![Just(65535u16), Just(29200u16), Just(8192u16), any::<u16>()],
    )
        .prop_map(|((v4, c_addr, s_addr, c_port, s_port), script, c_cuts, s_cuts, (c_isn, s_isn), (c_ttl, s_ttl), ts, gap_ms, fin, window)| Conn {
            v4,
            c_addr,
            // both endpoints on one host (loopback-like traffic) is allowed when the ports differ
            s_addr: if s_addr % 12 == c_addr % 12 && (c_port == s_port || gap_ms % 3 != 0) { (s_addr + 1) % 12 } else if v4 && s_addr % 6 == c_addr % 6 && (c_port == s_port || gap_ms % 3 != 0) { (s_addr + 1) % 6 } else { s_addr },
            c_port,
            s_port,
            script,
            c_cuts,
            s_cuts,
            c_isn,
            s_isn,
            c_ttl,
            s_ttl,
            ts,
            gap_ms,
            fin,
            window,
        })
}

/// 1..max connections with pairwise distinct (and non-reversed) 4-tuples and pairwise distinct TSvals
pub fn trace_case(max_conns: usize, allow_h2: bool) -> impl Strategy<Value = TraceCase> {
    (vec(conn(allow_h2), 1..=max_conns), vec(any::<u16>(), 0..60), prop_oneof![4 => Just(Link::Ether), 1 => Just(Link::Raw)], prop_oneof![3 => Just(0u8), 1 => Just(1u8), 1 => Just(2u8)], prop_oneof![3 => Just(0u8), 1 => Just(1u8), 1 => Just(2u8)], prop_oneof![8 => Just(0u16), 1 => Just(1u16), 1 => Just(185u16), 1 => Just(0x1fffu16)], prop_oneof![5 => Just(0u8), 1 => Just(1u8), 1 => Just(2u8), 1 => Just(3u8)]).prop_map(|(conns, schedule, link, macs, wire, frag, ipopt)| {
        let mut seen = std::collections::BTreeSet::new();
        let mut kept: Vec<Conn> = vec![];
        for (i, mut c) in conns.into_iter().enumerate() {
            // near-collision: one connection in seven runs between the same two hosts as its predecessor with the port pair the other
            // way round (X:p -> Y:q and X:q -> Y:p): different 4-tuples that agree in every unordered pair of fields
            if c.gap_ms % 7 == 3 {
                if let Some(prev) = kept.last() {
                    c.v4 = prev.v4;
                    c.c_addr = prev.c_addr;
                    c.s_addr = prev.s_addr;
                    c.c_port = prev.s_port;
                    c.s_port = prev.c_port;
                }
            }
            if seen.contains(&c.key()) || seen.contains(&c.rkey()) {
                continue;
            }
            seen.insert(c.key());
            // distinct TSval ranges per connection and direction (the clock table of hook H1 is keyed by TSval)
            if let Some((cb, cr, sb, sr)) = c.ts {
                let slot = (i as u32 + 1) << 27;
                c.ts = Some(((cb & 0x03ff_ffff) | slot, cr, (sb & 0x03ff_ffff) | slot | (1 << 26), sr));
            }
            // raw-IP frames must not look like Ethernet to the Ethernet-first decoder: the address pool guarantees it
            kept.push(c);
        }
        TraceCase { conns: kept, schedule, link, macs, wire, frag, ipopt }
    })
}
