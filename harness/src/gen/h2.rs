//! HTTP/2 frames and an own HPACK encoder (indexed, literal with/without/never indexing, new/indexed names,
//! Huffman or plain strings, dynamic-table size updates) + strategies.
use super::huffman_table::HUFFMAN;
use proptest::collection::vec;
use proptest::prelude::*;
use serde::{Deserialize, Serialize};

pub const PREFACE: &[u8] = b"PRI * HTTP/2.0\r\n\r\nSM\r\n\r\n";

pub const STATIC_TABLE: [(&str, &str); 61] = [
    (":authority", ""), (":method", "GET"), (":method", "POST"), (":path", "/"), (":path", "/index.html"), (":scheme", "http"), (":scheme", "https"),
    (":status", "200"), (":status", "204"), (":status", "206"), (":status", "304"), (":status", "400"), (":status", "404"), (":status", "500"),
    ("accept-charset", ""), ("accept-encoding", "gzip, deflate"), ("accept-language", ""), ("accept-ranges", ""), ("accept", ""), ("access-control-allow-origin", ""),
    ("age", ""), ("allow", ""), ("authorization", ""), ("cache-control", ""), ("content-disposition", ""), ("content-encoding", ""), ("content-language", ""),
    ("content-length", ""), ("content-location", ""), ("content-range", ""), ("content-type", ""), ("cookie", ""), ("date", ""), ("etag", ""), ("expect", ""),
    ("expires", ""), ("from", ""), ("host", ""), ("if-match", ""), ("if-modified-since", ""), ("if-none-match", ""), ("if-range", ""), ("if-unmodified-since", ""),
    ("last-modified", ""), ("link", ""), ("location", ""), ("max-forwards", ""), ("proxy-authenticate", ""), ("proxy-authorization", ""), ("range", ""),
    ("referer", ""), ("refresh", ""), ("retry-after", ""), ("server", ""), ("set-cookie", ""), ("strict-transport-security", ""), ("transfer-encoding", ""),
    ("user-agent", ""), ("vary", ""), ("via", ""), ("www-authenticate", ""),
];

pub fn huffman_encode(data: &[u8]) -> Vec<u8> {
    let mut out = vec![];
    let mut acc: u64 = 0;
    let mut nbits: u32 = 0;
    for b in data {
        let (code, len) = HUFFMAN[*b as usize];
        acc = (acc << len) | code as u64;
        nbits += len as u32;
        while nbits >= 8 {
            nbits -= 8;
            out.push((acc >> nbits) as u8);
            acc &= (1u64 << nbits) - 1;
        }
    }
    if nbits > 0 {
        // pad with the most significant bits of EOS (all ones)
        let pad = 8 - nbits;
        out.push(((acc << pad) | ((1u64 << pad) - 1)) as u8);
    }
    out
}

pub fn encode_int(value: usize, prefix_bits: u8, first_byte_flags: u8, out: &mut Vec<u8>) {
    let max = (1usize << prefix_bits) - 1;
    if value < max {
        out.push(first_byte_flags | value as u8);
    } else {
        out.push(first_byte_flags | max as u8);
        let mut v = value - max;
        while v >= 128 {
            out.push((v % 128) as u8 | 0x80);
            v /= 128;
        }
        out.push(v as u8);
    }
}

pub fn encode_string(s: &[u8], huffman: bool, out: &mut Vec<u8>) {
    if huffman {
        let h = huffman_encode(s);
        encode_int(h.len(), 7, 0x80, out);
        out.extend(h);
    } else {
        encode_int(s.len(), 7, 0x00, out);
        out.extend_from_slice(s);
    }
}

/// how one header field is represented
#[derive(Clone, Copy, Debug, PartialEq, Eq, Hash, Serialize, Deserialize)]
pub enum Repr {
    /// fully indexed if the (name, value) pair is in a table, else literal with incremental indexing
    PreferIndexed,
    /// literal with incremental indexing (enters the dynamic table)
    LiteralIndexed,
    LiteralNotIndexed,
    LiteralNeverIndexed,
}

#[derive(Clone, Debug, PartialEq, Eq, Hash, Serialize, Deserialize)]
pub struct Field {
    pub name: String,
    pub value: Vec<u8>,
    pub repr: Repr,
    /// use an indexed name when the name is in a table
    pub name_indexed: bool,
    pub huffman_name: bool,
    pub huffman_value: bool,
}

/// encoder-side dynamic table
#[derive(Clone, Debug, Default)]
pub struct DynTable {
    pub entries: Vec<(Vec<u8>, Vec<u8>)>, // newest first
    pub max_size: usize,
}
impl DynTable {
    pub fn new() -> Self {
        DynTable { entries: vec![], max_size: 4096 }
    }
    fn size(&self) -> usize {
        self.entries.iter().map(|(n, v)| n.len() + v.len() + 32).sum()
    }
    fn evict(&mut self) {
        while self.size() > self.max_size && !self.entries.is_empty() {
            self.entries.pop();
        }
    }
    pub fn add(&mut self, n: &[u8], v: &[u8]) {
        self.entries.insert(0, (n.to_vec(), v.to_vec()));
        self.evict();
    }
    pub fn set_max(&mut self, m: usize) {
        self.max_size = m;
        self.evict();
    }
    pub fn find(&self, n: &[u8], v: &[u8]) -> (Option<usize>, Option<usize>) {
        // (full match index, name-only index), 1-based over static ++ dynamic
        let mut full = None;
        let mut name = None;
        for (i, (sn, sv)) in STATIC_TABLE.iter().enumerate() {
            if sn.as_bytes() == n {
                if name.is_none() {
                    name = Some(i + 1);
                }
                if sv.as_bytes() == v && full.is_none() {
                    full = Some(i + 1);
                }
            }
        }
        for (i, (dn, dv)) in self.entries.iter().enumerate() {
            if dn == n {
                if name.is_none() {
                    name = Some(62 + i);
                }
                if dv == v && full.is_none() {
                    full = Some(62 + i);
                }
            }
        }
        (full, name)
    }
}

/// a header block: optional dynamic-table size updates at the start, then the fields
#[derive(Clone, Debug, PartialEq, Eq, Hash, Serialize, Deserialize)]
pub struct Block {
    pub size_updates: Vec<u16>,
    pub fields: Vec<Field>,
}

pub fn encode_block(b: &Block, table: &mut DynTable) -> Vec<u8> {
    let mut out = vec![];
    for s in &b.size_updates {
        encode_int(*s as usize, 5, 0x20, &mut out);
        table.set_max(*s as usize);
    }
    for f in &b.fields {
        let n = f.name.as_bytes();
        let (full, name_idx) = table.find(n, &f.value);
        let name_idx = if f.name_indexed { name_idx } else { None };
        match (f.repr, full) {
            (Repr::PreferIndexed, Some(i)) => encode_int(i, 7, 0x80, &mut out),
            (repr, _) => {
                let (flags, bits) = match repr {
                    Repr::PreferIndexed | Repr::LiteralIndexed => (0x40u8, 6u8),
                    Repr::LiteralNotIndexed => (0x00, 4),
                    Repr::LiteralNeverIndexed => (0x10, 4),
                };
                match name_idx {
                    Some(i) => encode_int(i, bits, flags, &mut out),
                    None => {
                        encode_int(0, bits, flags, &mut out);
                        encode_string(n, f.huffman_name, &mut out);
                    }
                }
                encode_string(&f.value, f.huffman_value, &mut out);
                if flags == 0x40 {
                    table.add(n, &f.value);
                }
            }
        }
    }
    out
}

// ------------------------------------------------------------------------------------------------
// frames
// ------------------------------------------------------------------------------------------------
pub const T_DATA: u8 = 0;
pub const T_HEADERS: u8 = 1;
pub const T_PRIORITY: u8 = 2;
pub const T_RST: u8 = 3;
pub const T_SETTINGS: u8 = 4;
pub const T_PUSH: u8 = 5;
pub const T_PING: u8 = 6;
pub const T_GOAWAY: u8 = 7;
pub const T_WINDOW_UPDATE: u8 = 8;
pub const T_CONTINUATION: u8 = 9;
pub const F_END_STREAM: u8 = 0x1;
pub const F_ACK: u8 = 0x1;
pub const F_END_HEADERS: u8 = 0x4;
pub const F_PADDED: u8 = 0x8;
pub const F_PRIORITY: u8 = 0x20;

pub fn frame(typ: u8, flags: u8, stream: u32, payload: &[u8]) -> Vec<u8> {
    let mut v = Vec::with_capacity(9 + payload.len());
    v.extend_from_slice(&(payload.len() as u32).to_be_bytes()[1..]);
    v.push(typ);
    v.push(flags);
    v.extend_from_slice(&stream.to_be_bytes());
    v.extend_from_slice(payload);
    v
}

#[derive(Clone, Debug, PartialEq, Eq, Hash, Serialize, Deserialize)]
pub struct PrioritySpec {
    pub exclusive: bool,
    pub dep: u32,
    pub weight: u8,
}
impl PrioritySpec {
    pub fn bytes(&self) -> Vec<u8> {
        let mut v = ((self.dep & 0x7fff_ffff) | if self.exclusive { 0x8000_0000 } else { 0 }).to_be_bytes().to_vec();
        v.push(self.weight);
        v
    }
}

/// framing of one header block
#[derive(Clone, Debug, PartialEq, Eq, Hash, Serialize, Deserialize)]
pub struct HeadersFraming {
    pub stream: u32,
    pub end_stream: bool,
    pub pad: Option<u8>,
    pub priority: Option<PrioritySpec>,
    /// raw selectors for split points of the block into HEADERS + CONTINUATION fragments
    pub splits: Vec<u16>,
    /// set the reserved bit of the stream id on the wire
    pub reserved_bit: bool,
    /// flag bits without a meaning for CONTINUATION frames (0x08, 0x20, 0x01 ...), set on every CONTINUATION frame of the
    /// block: RFC 7540 4.1 - flags that have no defined semantics for a frame type MUST be ignored
    #[serde(default)]
    pub cont_flags: u8,
}

pub fn headers_frames(block: &[u8], f: &HeadersFraming) -> Vec<Vec<u8>> {
    let mut cuts: Vec<usize> = f.splits.iter().map(|s| crate::engine::idx(*s, block.len() + 1)).collect();
    cuts.sort_unstable();
    cuts.dedup();
    let mut frags: Vec<&[u8]> = vec![];
    let mut prev = 0;
    for c in cuts {
        frags.push(&block[prev..c]);
        prev = c;
    }
    frags.push(&block[prev..]);
    let n = frags.len();
    let sid = f.stream | if f.reserved_bit { 0x8000_0000 } else { 0 };
    let mut out = vec![];
    for (i, frag) in frags.iter().enumerate() {
        let last = i + 1 == n;
        if i == 0 {
            let mut p = vec![];
            let mut flags = if f.end_stream { F_END_STREAM } else { 0 };
            if let Some(pad) = f.pad {
                flags |= F_PADDED;
                p.push(pad);
            }
            if let Some(pr) = &f.priority {
                flags |= F_PRIORITY;
                p.extend(pr.bytes());
            }
            p.extend_from_slice(frag);
            if let Some(pad) = f.pad {
                p.extend(std::iter::repeat(0u8).take(pad as usize));
            }
            if last {
                flags |= F_END_HEADERS;
            }
            out.push(frame(T_HEADERS, flags, sid, &p));
        } else {
            out.push(frame(T_CONTINUATION, (if last { F_END_HEADERS } else { 0 }) | (f.cont_flags & !F_END_HEADERS), sid, frag));
        }
    }
    out
}

pub fn settings_frame(params: &[(u16, u32)], ack: bool) -> Vec<u8> {
    let mut p = vec![];
    for (id, v) in params {
        p.extend_from_slice(&id.to_be_bytes());
        p.extend_from_slice(&v.to_be_bytes());
    }
    frame(T_SETTINGS, if ack { F_ACK } else { 0 }, 0, &p)
}
pub fn window_update_frame(stream: u32, inc: u32, reserved: bool) -> Vec<u8> {
    frame(T_WINDOW_UPDATE, 0, stream, &((inc & 0x7fff_ffff) | if reserved { 0x8000_0000 } else { 0 }).to_be_bytes())
}
pub fn priority_frame(stream: u32, p: &PrioritySpec) -> Vec<u8> {
    frame(T_PRIORITY, 0, stream, &p.bytes())
}

// ------------------------------------------------------------------------------------------------
// strategies
// ------------------------------------------------------------------------------------------------
pub fn repr() -> impl Strategy<Value = Repr> {
    prop_oneof![3 => Just(Repr::PreferIndexed), 2 => Just(Repr::LiteralIndexed), 1 => Just(Repr::LiteralNotIndexed), 1 => Just(Repr::LiteralNeverIndexed)]
}

pub const H2_REQ_NAMES: [&str; 24] = [
    "accept-charset", "keep-alive",
    "user-agent", "accept", "accept-language", "accept-encoding", "cookie", "referer", "origin", "cache-control", "range", "if-none-match", "via", "authorization", "host", "connection",
    "upgrade-insecure-requests", "sec-fetch-mode", "sec-ch-ua", "dnt", "te", "pragma", "content-length", "content-type",
];
pub const H2_RESP_NAMES: [&str; 18] = ["connection", "keep-alive", "server", "date", "content-type", "content-length", "set-cookie", "last-modified", "etag", "cache-control", "expires", "vary", "location", "accept-ranges", "x-powered-by", "alt-svc", "content-encoding", "strict-transport-security"];

pub fn h2_value() -> impl Strategy<Value = Vec<u8>> {
    prop_oneof![
        5 => prop_oneof![Just("*/*"), Just("gzip, deflate, br"), Just("en-US,en;q=0.9,fr;q=0.8"), Just("Mozilla/5.0 (X11; Linux x86_64) Chrome/96.0"), Just("a=1; b=2"), Just("https://example.com/"), Just("nginx"), Just("text/html"), Just("max-age=0")].prop_map(|s| s.as_bytes().to_vec()),
        3 => "[!-~]([ -~]{0,40}[!-~])?".prop_map(|s| s.into_bytes()),
        1 => "[a-zéü日本]{1,8}".prop_map(|s| s.into_bytes()),
        1 => Just(vec![]),
    ]
}

pub fn field(request: bool) -> impl Strategy<Value = Field> {
    let pool: &'static [&'static str] = if request { &H2_REQ_NAMES } else { &H2_RESP_NAMES };
    (
        prop_oneof![6 => (0usize..pool.len()).prop_map(move |i| pool[i].to_string()), 2 => "[a-z][a-z0-9-]{0,14}"],
        h2_value(),
        repr(),
        any::<bool>(),
        any::<bool>(),
        any::<bool>(),
    )
        .prop_map(|(name, value, repr, name_indexed, huffman_name, huffman_value)| Field { name, value, repr, name_indexed, huffman_name, huffman_value })
}

pub fn pseudo(name: &str, value: &[u8]) -> impl Strategy<Value = Field> {
    let (name, value) = (name.to_string(), value.to_vec());
    (repr(), any::<bool>(), any::<bool>()).prop_map(move |(repr, name_indexed, huffman_value)| Field { name: name.clone(), value: value.clone(), repr, name_indexed, huffman_name: false, huffman_value })
}

/// a request header list: pseudo-headers in generated order, then 0..40 fields
pub fn request_block() -> impl Strategy<Value = Block> {
    let method = prop_oneof![Just("GET"), Just("POST"), Just("HEAD"), Just("OPTIONS"), Just("PUT")];
    let path = prop_oneof![Just("/".to_string()), Just("/index.html".to_string()), "/[a-z0-9/?=&.-]{0,30}"];
    let authority = prop_oneof![Just("example.com".to_string()), Just("www.example.org:8443".to_string()), "[a-z]{1,10}\\.test"];
    let scheme = prop_oneof![Just("https"), Just("http")];
    (method, path, proptest::option::weighted(0.9, authority), proptest::option::weighted(0.9, scheme), any::<u16>(), vec(field(true), 0..25), vec(prop_oneof![Just(0u16), Just(4096u16), 0u16..4096], 0..2), vec((repr(), any::<bool>(), any::<bool>()), 4))
        .prop_map(|(m, p, a, s, perm, fields, size_updates, reprs)| {
            let mut ps: Vec<(String, Vec<u8>)> = vec![(":method".into(), m.as_bytes().to_vec()), (":path".into(), p.into_bytes())];
            if let Some(a) = a {
                ps.push((":authority".into(), a.into_bytes()));
            }
            if let Some(s) = s {
                ps.push((":scheme".into(), s.as_bytes().to_vec()));
            }
            // permute pseudo-headers
            let mut r = crate::engine::SplitMix(perm as u64);
            for i in (1..ps.len()).rev() {
                let j = r.below(i as u64 + 1) as usize;
                ps.swap(i, j);
            }
            let mut all: Vec<Field> = ps.into_iter().enumerate().map(|(i, (n, v))| Field { name: n, value: v, repr: reprs[i % 4].0, name_indexed: reprs[i % 4].1, huffman_name: false, huffman_value: reprs[i % 4].2 }).collect();
            all.extend(fields);
            Block { size_updates, fields: all }
        })
}

pub fn response_block() -> impl Strategy<Value = Block> {
    (prop_oneof![Just(200u16), Just(404u16), Just(304u16), 100u16..600], vec(field(false), 0..20), vec(prop_oneof![Just(0u16), Just(4096u16), 0u16..4096], 0..2), (repr(), any::<bool>(), any::<bool>())).prop_map(|(st, fields, size_updates, r)| {
        let mut all = vec![Field { name: ":status".into(), value: st.to_string().into_bytes(), repr: r.0, name_indexed: r.1, huffman_name: false, huffman_value: r.2 }];
        all.extend(fields);
        Block { size_updates, fields: all }
    })
}

pub fn priority_spec() -> impl Strategy<Value = PrioritySpec> {
    (any::<bool>(), prop_oneof![Just(0u32), 0u32..20, any::<u32>().prop_map(|x| x & 0x7fff_ffff)], any::<u8>()).prop_map(|(exclusive, dep, weight)| PrioritySpec { exclusive, dep, weight })
}

pub fn headers_framing() -> impl Strategy<Value = HeadersFraming> {
    (
        prop_oneof![3 => Just(1u32), 1 => Just(3u32), 1 => (1u32..1000).prop_map(|x| x * 2 + 1)],
        any::<bool>(),
        proptest::option::weighted(0.3, prop_oneof![Just(0u8), Just(1u8), Just(255u8), any::<u8>()]),
        proptest::option::weighted(0.3, priority_spec()),
        prop_oneof![5 => Just(vec![]), 3 => vec(any::<u16>(), 1..4), 1 => vec(any::<u16>(), 4..12)],
        proptest::bool::weighted(0.1),
        prop_oneof![3 => Just(0u8), 1 => prop_oneof![Just(0x08u8), Just(0x20u8), Just(0x28u8), Just(0x01u8), Just(0xfbu8)]],
    )
        .prop_map(|(stream, end_stream, pad, priority, splits, reserved_bit, cont_flags)| HeadersFraming { stream, end_stream, pad, priority, splits, reserved_bit, cont_flags })
}
