//! HTTP/1.x message heads from the RFC 7230 grammar (structure -> bytes) + strategies.
use proptest::collection::vec;
use proptest::prelude::*;
use serde::{Deserialize, Serialize};

pub const METHODS: [&str; 16] = ["GET", "POST", "PUT", "DELETE", "HEAD", "OPTIONS", "PATCH", "TRACE", "CONNECT", "PROPFIND", "PROPPATCH", "MKCOL", "COPY", "MOVE", "LOCK", "UNLOCK"];

#[derive(Clone, Debug, PartialEq, Eq, Hash, Serialize, Deserialize)]
pub struct Hdr {
    pub name: String,
    /// value as it should be *reported* (already free of leading/trailing optional whitespace)
    pub value: String,
    /// optional whitespace written before and after the value on the wire (SP / HTAB)
    pub ows_before: String,
    pub ows_after: String,
}

#[derive(Clone, Debug, PartialEq, Eq, Hash, Serialize, Deserialize)]
pub struct Request {
    pub method: String,
    pub target: String,
    /// true: HTTP/1.1, false: HTTP/1.0
    pub v11: bool,
    pub headers: Vec<Hdr>,
}
#[derive(Clone, Debug, PartialEq, Eq, Hash, Serialize, Deserialize)]
pub struct Response {
    pub v11: bool,
    pub status: u16,
    pub reason: Option<String>,
    pub headers: Vec<Hdr>,
}

fn head_lines(headers: &[Hdr], out: &mut Vec<u8>) {
    for h in headers {
        out.extend_from_slice(h.name.as_bytes());
        out.push(b':');
        out.extend_from_slice(h.ows_before.as_bytes());
        out.extend_from_slice(h.value.as_bytes());
        out.extend_from_slice(h.ows_after.as_bytes());
        out.extend_from_slice(b"\r\n");
    }
    out.extend_from_slice(b"\r\n");
}

impl Request {
    pub fn head(&self) -> Vec<u8> {
        let mut o = format!("{} {} {}\r\n", self.method, self.target, if self.v11 { "HTTP/1.1" } else { "HTTP/1.0" }).into_bytes();
        head_lines(&self.headers, &mut o);
        o
    }
}
impl Response {
    pub fn head(&self) -> Vec<u8> {
        let mut o = format!("{} {}", if self.v11 { "HTTP/1.1" } else { "HTTP/1.0" }, format!("{:03}", self.status)).into_bytes();
        if let Some(r) = &self.reason {
            o.push(b' ');
            o.extend_from_slice(r.as_bytes());
        }
        o.extend_from_slice(b"\r\n");
        head_lines(&self.headers, &mut o);
        o
    }
}

pub const REQ_NAMES: [&str; 24] = [
    "Host", "User-Agent", "Accept", "Accept-Language", "Accept-Encoding", "Accept-Charset", "Keep-Alive", "Connection", "Cookie", "Referer", "Origin", "Range",
    "If-Modified-Since", "If-None-Match", "Via", "X-Forwarded-For", "Authorization", "Cache-Control", "Content-Length", "Content-Type", "Pragma", "DNT", "Upgrade-Insecure-Requests", "TE",
];
pub const RESP_NAMES: [&str; 20] = [
    "Server", "Date", "Content-Type", "Content-Length", "Connection", "Keep-Alive", "Accept-Ranges", "Set-Cookie", "Last-Modified", "ETag", "Content-Disposition", "Cache-Control",
    "Expires", "Pragma", "Location", "Refresh", "Content-Range", "Vary", "X-Powered-By", "Transfer-Encoding",
];

fn case_variant(s: &str, k: u8) -> String {
    match k % 4 {
        0 => s.to_lowercase(),
        1 => s.to_uppercase(),
        2 => s.chars().enumerate().map(|(i, c)| if i % 2 == 0 { c.to_ascii_lowercase() } else { c.to_ascii_uppercase() }).collect(),
        _ => s.to_string(),
    }
}

pub fn header_name(request: bool) -> impl Strategy<Value = String> {
    let pool: &'static [&'static str] = if request { &REQ_NAMES } else { &RESP_NAMES };
    prop_oneof![
        8 => (0usize..pool.len()).prop_map(move |i| pool[i].to_string()),
        2 => ((0usize..pool.len()), any::<u8>()).prop_map(move |(i, k)| case_variant(pool[i], k)),
        2 => "[A-Za-z][A-Za-z0-9!#$%&'*+.^_`|~-]{0,14}",
    ]
}

pub fn accept_language() -> impl Strategy<Value = String> {
    let tag = prop_oneof![
        6 => prop_oneof![Just("en"), Just("en-US"), Just("fr"), Just("de-DE"), Just("es"), Just("ja"), Just("ru"), Just("pt-BR"), Just("zh-CN"), Just("nl")].prop_map(|s| s.to_string()),
        2 => prop_oneof![Just("xx"), Just("zz-ZZ"), Just("*"), Just("q1")].prop_map(|s| s.to_string()),
        // primary subtags that merely *start* like a known two-letter code (three-letter ISO 639-2 codes, upper case, longer words)
        3 => prop_oneof![Just("fil"), Just("fil-PH"), Just("haw"), Just("ast-ES"), Just("yue-HK"), Just("eng"), Just("EN"), Just("En-us"), Just("deu"), Just("français"), Just("e"), Just("english")].prop_map(|s| s.to_string()),
        1 => "[a-z]{3,5}(-[A-Z]{2})?",
    ];
    let q = prop_oneof![3 => Just(None), 4 => prop_oneof![Just("0"), Just("0.1"), Just("0.5"), Just("0.8"), Just("0.9"), Just("1"), Just("1.0"), Just("0.123")].prop_map(|s| Some(s.to_string()))];
    vec((tag, q, prop_oneof![Just(""), Just(" ")]), 1..6).prop_map(|m| {
        m.into_iter()
            .map(|(t, q, sp)| match q {
                Some(q) => format!("{sp}{t};q={q}"),
                None => format!("{sp}{t}"),
            })
            .collect::<Vec<_>>()
            .join(",")
    })
}

pub fn header_value() -> impl Strategy<Value = String> {
    prop_oneof![
        4 => prop_oneof![Just("keep-alive"), Just("*/*"), Just("gzip, deflate"), Just("text/html; charset=utf-8"), Just("example.com"), Just("a=1; b=2; c"), Just("http://example.com/x?y=1"), Just("Mozilla/5.0 (X11; Linux x86_64) Firefox/3.6"), Just("curl/7.68.0"), Just("nginx/1.18.0"), Just("")].prop_map(|s| s.to_string()),
        3 => "[!-~]([ -~]{0,30}[!-~])?",
        1 => "[a-zéüñ日本][a-zéüñ日本 ,;=:.]{0,10}[a-zé日]",
        2 => accept_language(),
    ]
}

pub fn ows() -> impl Strategy<Value = String> {
    prop_oneof![4 => Just(" ".to_string()), 1 => Just(String::new()), 1 => Just("  ".to_string()), 1 => Just("\t".to_string()), 1 => Just(" \t ".to_string())]
}

pub fn hdr(request: bool) -> impl Strategy<Value = Hdr> {
    (header_name(request), header_value(), ows(), prop_oneof![4 => Just(String::new()), 1 => Just(" ".to_string()), 1 => Just("\t".to_string())]).prop_map(|(name, value, ows_before, ows_after)| {
        let value = if name.eq_ignore_ascii_case("accept-language") && !value.contains("q=") && value.len() > 20 { "en-US,en;q=0.5".to_string() } else { value };
        let value = value.trim_matches(|c| c == ' ' || c == '\t').to_string();
        Hdr { name, value, ows_before, ows_after }
    })
}

pub fn headers(request: bool) -> impl Strategy<Value = Vec<Hdr>> {
    prop_oneof![8 => vec(hdr(request), 0..14), 1 => vec(hdr(request), 14..60), 1 => vec(hdr(request), 99..=100)]
}

pub fn target() -> impl Strategy<Value = String> {
    prop_oneof![3 => Just("/".to_string()), 2 => Just("/index.html?a=1&b=2".to_string()), 1 => Just("*".to_string()), 1 => Just("http://example.com:8080/p".to_string()), 2 => "/[!-~]{0,40}",
        // authority-form (RFC 7230 5.3.3, used with CONNECT) and other absolute-form schemes
        1 => prop_oneof![Just("www.example.org:443".to_string()), Just("[2001:db8::1]:8443".to_string()), Just("10.0.0.1:80".to_string()), Just("https://user@example.com/".to_string()), Just("ftp://h/f".to_string())]]
}

pub fn request() -> impl Strategy<Value = Request> {
    ((0usize..16), target(), any::<bool>(), headers(true)).prop_map(|(m, target, v11, headers)| Request { method: METHODS[m].to_string(), target, v11, headers })
}
pub fn response() -> impl Strategy<Value = Response> {
    (any::<bool>(), prop_oneof![3 => Just(200u16), 1 => Just(404u16), 1 => Just(301u16), 2 => 100u16..600, 1 => 0u16..1000], proptest::option::weighted(0.85, prop_oneof![Just("OK".to_string()), Just("Not Found".to_string()), Just(String::new()), "[!-~]([ -~]{0,20}[!-~])?"]), headers(false))
        .prop_map(|(v11, status, reason, headers)| Response { v11, status, reason, headers })
}

/// bodies: empty, text with line breaks / blank lines / header-like lines / a second request line, binary incl. invalid UTF-8 and NULs, gzip magic
pub fn body() -> impl Strategy<Value = Vec<u8>> {
    prop_oneof![
        2 => Just(vec![]),
        2 => prop_oneof![
            Just(b"hello world".to_vec()),
            Just(b"line1\r\nline2\r\n\r\nX-Fake: header\r\nHost: evil\r\n\r\n".to_vec()),
            Just(b"a\nb\n\nc: d\n".to_vec()),
            Just(b"GET /second HTTP/1.1\r\nHost: other\r\nUser-Agent: second\r\n\r\n".to_vec()),
            Just(b"HTTP/1.1 500 Second\r\nServer: other\r\n\r\n".to_vec()),
            Just("{\"k\": \"v\u{e9}\"}".as_bytes().to_vec()),
        ],
        1 => Just(vec![0x1f, 0x8b, 0x08, 0x00, 0x00, 0x00, 0x00, 0x00, 0x00, 0x03, 0xcb, 0x48, 0xcd, 0xc9, 0xc9, 0x07, 0x00, 0x86, 0xa6, 0x10, 0x36]),
        1 => Just(vec![0xff, 0xfe, 0x00, 0x00, 0x80, 0xc3, 0x28]),
        3 => vec(any::<u8>(), 1..200),
        1 => "[ -~\r\n]{1,120}".prop_map(|s| s.into_bytes()),
    ]
}
