use vh::engine::{self, Ctx, Tier};

#[global_allocator]
static GLOBAL: vh::alloc::Counting = vh::alloc::Counting;

fn main() {
    let args: Vec<String> = std::env::args().collect();
    if args.len() < 2 {
        eprintln!("usage: check <ID> [--tier quick|thorough] [--replay <file>] [--strict]");
        std::process::exit(2);
    }
    let id = args[1].clone();
    let mut tier = match std::env::var("VERIF_TIER").ok().as_deref() {
        Some("thorough") => Tier::Thorough,
        _ => Tier::Quick,
    };
    let mut replay: Option<String> = None;
    let mut judge: Option<String> = None;
    let mut strict = false;
    let mut i = 2;
    while i < args.len() {
        match args[i].as_str() {
            "--tier" => {
                i += 1;
                tier = if args[i] == "thorough" { Tier::Thorough } else { Tier::Quick };
            }
            "--replay" => {
                i += 1;
                replay = Some(args[i].clone());
            }
            "--judge-hang" => {
                i += 1;
                judge = Some(args[i].clone());
            }
            "--strict" => strict = true,
            other => {
                eprintln!("unknown argument {other}");
                std::process::exit(2);
            }
        }
        i += 1;
    }
    let seed: u64 = std::env::var("VERIF_SEED").ok().and_then(|s| s.parse::<i64>().ok()).map(|v| v as u64).unwrap_or(0);
    if let Some(path) = judge {
        std::process::exit(engine::judge_hang(&id, tier.name(), seed, &path, false));
    }
    engine::install_panic_hook();
    let mut ctx = Ctx::new(&id, tier, seed);
    ctx.strict = strict;
    if let Some(path) = &replay {
        // an input saved by the hang / runaway-memory detector is replayed under the same CPU-time and memory limits
        let isolated = std::fs::read_to_string(path).map(|t| t.contains("\"sub\": \"isolated-input\"")).unwrap_or(false);
        if isolated && std::env::var("VERIF_ISOLATED").is_err() {
            std::process::exit(engine::judge_hang(&id, tier.name(), seed, path, true));
        }
    }
    if let Some(path) = replay {
        let code = vh::props::replay(&ctx, &path);
        std::process::exit(code);
    }
    let (total, stall) = match tier {
        Tier::Quick => (1500, 240),
        Tier::Thorough => (6 * 3600, 900),
    };
    engine::start_watchdog_tier(&id, tier.name(), total, stall);
    if !vh::props::run(&ctx) {
        eprintln!("unknown property {id}");
        std::process::exit(2);
    }
    std::process::exit(ctx.finish());
}
