//! Driver for the three worker pools: dispatch, hook-based worker trace and schedule perturbation,
//! deterministic drain (wait until every queued packet has *started*, then shutdown and read the
//! result channel to its end).
use crate::drive;
use crate::engine::SplitMix;
use crate::props::c14::{self, FilterSpec};
use std::collections::HashMap;
use std::sync::atomic::{AtomicU64, Ordering};
use std::sync::{mpsc, Arc, Mutex};
use std::time::{Duration, Instant};

#[derive(Clone, Copy, Debug, PartialEq, Eq, Hash)]
pub enum PoolKind {
    Tcp,
    Http,
    Tls,
}

#[derive(Clone, Debug)]
pub struct PoolCfg {
    pub workers: usize,
    pub queue: usize,
    pub batch: usize,
    pub timeout_ms: u64,
    pub dispatchers: usize,
    /// None = no perturbation
    pub perturb: Option<u64>,
    /// perturbation strength: max sleep in microseconds at a schedule point
    pub max_sleep_us: u64,
    /// `max_connections` handed to the pool (documented as a per-worker capacity)
    pub max_conn: usize,
}

#[derive(Debug, Default)]
pub struct PoolRun {
    /// (ordering key, rendering) of the non-empty results in channel order
    pub results: Vec<(String, String)>,
    /// per frame: was it reported Queued
    pub queued: Vec<bool>,
    pub total_dispatched: u64,
    pub total_dropped: u64,
    pub worker_dropped: Vec<u64>,
    /// (worker id, fnv of frame bytes) for every packet a worker started to analyse
    pub analysed: Vec<(usize, u64)>,
    /// watchdog fired while waiting for the drain (inconclusive, not a violation)
    pub drain_timeout: bool,
    /// a worker thread panicked during the run (message)
    pub worker_panic: Option<String>,
    /// process-wide live bytes once every queued packet has been analysed and before the pool is shut down
    /// (only when alloc::global_on())
    pub live_at_quiescence: Option<i64>,
}

/// pools use process-wide hooks: one pool run at a time
pub static POOL_LOCK: Mutex<()> = Mutex::new(());

fn worker_id_of_thread() -> usize {
    std::thread::current().name().and_then(|n| n.rsplit('-').next().and_then(|s| s.parse().ok())).unwrap_or(usize::MAX)
}

pub fn run_pool(kind: PoolKind, frames: &[Vec<u8>], cfg: &PoolCfg, filter: Option<&FilterSpec>, clock: Option<HashMap<u32, u64>>) -> Result<PoolRun, String> {
    let _guard = POOL_LOCK.lock().unwrap_or_else(|e| e.into_inner());
    huginn_net_tcp::verif_hooks::set_global_clock_table(clock);
    let started = Arc::new(AtomicU64::new(0));
    let trace: Arc<Mutex<Vec<(usize, u64)>>> = Arc::new(Mutex::new(vec![]));
    let counter = Arc::new(AtomicU64::new(0));
    let (st2, tr2, ct2) = (started.clone(), trace.clone(), counter.clone());
    let perturb = cfg.perturb;
    let max_sleep = cfg.max_sleep_us;
    let hook = move |site: &'static str, pkt: &[u8]| {
        if let Some(seed) = perturb {
            let n = ct2.fetch_add(1, Ordering::Relaxed);
            let mut r = SplitMix(seed ^ n.wrapping_mul(0x9E3779B97F4A7C15) ^ crate::engine::fnv64(site.as_bytes()));
            match r.below(4) {
                0 => std::thread::yield_now(),
                1 => std::thread::sleep(Duration::from_micros(r.below(max_sleep.max(1)))),
                _ => {}
            }
        }
        if site == "worker_packet" {
            tr2.lock().unwrap().push((worker_id_of_thread(), crate::engine::fnv64(pkt)));
            st2.fetch_add(1, Ordering::SeqCst);
        }
    };
    let mut run = PoolRun::default();
    let panics_before = crate::engine::WORKER_PANICS.load(Ordering::SeqCst);
    let deadline = Instant::now() + Duration::from_secs(60);
    macro_rules! drive_pool {
        ($pool:expr, $rx:expr, $render:expr) => {{
            let pool = $pool;
            let qv = $crate::pool::queued_of(&pool);
            // dispatch
            let nd = cfg.dispatchers.max(1);
            let queued: Vec<bool> = if nd == 1 {
                frames.iter().map(|f| pool.dispatch(f.clone()) == qv).collect()
            } else {
                let res: Vec<Mutex<Option<bool>>> = frames.iter().map(|_| Mutex::new(None)).collect();
                std::thread::scope(|s| {
                    for d in 0..nd {
                        let pool = &pool;
                        let res = &res;
                        s.spawn(move || {
                            for (i, f) in frames.iter().enumerate() {
                                if i % nd == d {
                                    let q = pool.dispatch(f.clone()) == qv;
                                    *res[i].lock().unwrap() = Some(q);
                                }
                            }
                        });
                    }
                });
                res.into_iter().map(|m| m.into_inner().unwrap().unwrap_or(false)).collect()
            };
            let nq = queued.iter().filter(|q| **q).count() as u64;
            // wait until every queued packet has started
            let mut last_progress = (started.load(Ordering::SeqCst), Instant::now());
            while started.load(Ordering::SeqCst) < nq {
                if crate::engine::WORKER_PANICS.load(Ordering::SeqCst) != panics_before {
                    // a worker died: its queue will never drain
                    run.worker_panic = crate::engine::LAST_WORKER_PANIC.lock().ok().and_then(|g| g.clone());
                    break;
                }
                if Instant::now() > deadline {
                    run.drain_timeout = true;
                    break;
                }
                let now_started = started.load(Ordering::SeqCst);
                if now_started != last_progress.0 {
                    last_progress = (now_started, Instant::now());
                }
                // every queue is empty and nothing has started for 300 ms (after the shutdown below every dequeued packet is still analysed before its worker exits, so the final trace is complete either way): the missing packets were taken off the
                // queues without being analysed; stop waiting and let the accounting oracle report them
                if last_progress.1.elapsed() > Duration::from_millis(300) && pool.stats().workers.iter().all(|w| w.queue_size == 0) {
                    break;
                }
                if crate::alloc::global_on() {
                    // memory measurement: the consumer keeps up with the results (an unread result channel is not analyzer state)
                    while let Ok(r) = $rx.try_recv() {
                        drop(r);
                    }
                }
                std::thread::sleep(Duration::from_micros(200));
            }
            if crate::alloc::global_on() {
                std::thread::sleep(Duration::from_millis(30));
                while let Ok(r) = $rx.try_recv() {
                    drop(r);
                }
                run.live_at_quiescence = Some(crate::alloc::global_live());
            }
            let stats = pool.stats();
            run.total_dispatched = stats.total_dispatched;
            run.total_dropped = stats.total_dropped;
            run.worker_dropped = stats.workers.iter().map(|w| w.dropped).collect();
            pool.shutdown();
            drop(pool);
            // the channel ends when every worker has exited
            loop {
                match $rx.recv_timeout(Duration::from_secs(30)) {
                    Ok(r) => run.results.extend($render(&r)),
                    Err(mpsc::RecvTimeoutError::Disconnected) => break,
                    Err(mpsc::RecvTimeoutError::Timeout) => {
                        run.drain_timeout = true;
                        break;
                    }
                }
            }
            run.queued = queued;
            if run.worker_panic.is_none() && crate::engine::WORKER_PANICS.load(Ordering::SeqCst) != panics_before {
                run.worker_panic = crate::engine::LAST_WORKER_PANIC.lock().ok().and_then(|g| g.clone());
            }
        }};
    }
    match kind {
        PoolKind::Tcp => {
            huginn_net_tcp::verif_hooks::set_sched_hook(Some(Arc::new(hook)));
            let (tx, rx) = mpsc::channel();
            let pool = huginn_net_tcp::WorkerPool::new(cfg.workers, cfg.queue, cfg.batch, cfg.timeout_ms, tx, Some(crate::props::c15::arc_db()), cfg.max_conn, filter.map(c14::tcp_cfg)).map_err(|e| e.to_string())?;
            drive_pool!(pool, rx, |r: &huginn_net_tcp::TcpAnalysisResult| drive::tcp_keyed(r));
            huginn_net_tcp::verif_hooks::set_sched_hook(None);
        }
        PoolKind::Http => {
            huginn_net_http::verif_hooks::set_sched_hook(Some(Arc::new(hook)));
            let (tx, rx) = mpsc::channel();
            let pool = huginn_net_http::WorkerPool::new(cfg.workers, cfg.queue, cfg.batch, cfg.timeout_ms, tx, Some(crate::props::c15::arc_db()), cfg.max_conn, filter.map(c14::http_cfg)).map_err(|e| e.to_string())?;
            drive_pool!(pool, rx, |r: &huginn_net_http::HttpAnalysisResult| drive::http_keyed(r));
            huginn_net_http::verif_hooks::set_sched_hook(None);
        }
        PoolKind::Tls => {
            huginn_net_tls::verif_hooks::set_sched_hook(Some(Arc::new(hook)));
            let (tx, rx) = mpsc::channel();
            let pool = huginn_net_tls::WorkerPool::new(cfg.workers, cfg.queue, cfg.batch, cfg.timeout_ms, tx, cfg.max_conn, filter.map(c14::tls_cfg)).map_err(|e| e.to_string())?;
            drive_pool!(pool, rx, |r: &huginn_net_tls::TlsClientOutput| drive::tls_keyed(r));
            huginn_net_tls::verif_hooks::set_sched_hook(None);
        }
    }
    huginn_net_tcp::verif_hooks::set_global_clock_table(None);
    run.analysed = trace.lock().unwrap().clone();
    Ok(run)
}

pub trait HasQueued {
    type R: PartialEq + Copy + Send + Sync;
    fn queued(&self) -> Self::R;
}
impl HasQueued for huginn_net_tcp::WorkerPool {
    type R = huginn_net_tcp::DispatchResult;
    fn queued(&self) -> Self::R {
        huginn_net_tcp::DispatchResult::Queued
    }
}
impl HasQueued for Arc<huginn_net_http::WorkerPool> {
    type R = huginn_net_http::DispatchResult;
    fn queued(&self) -> Self::R {
        huginn_net_http::DispatchResult::Queued
    }
}
impl HasQueued for huginn_net_tls::WorkerPool {
    type R = huginn_net_tls::DispatchResult;
    fn queued(&self) -> Self::R {
        huginn_net_tls::DispatchResult::Queued
    }
}
pub fn queued_of<P: HasQueued>(p: &P) -> P::R {
    p.queued()
}
