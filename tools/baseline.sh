#!/bin/sh
# Runs the repository's own suite with the hooks feature OFF and reports failures other than the
# one that fails in the pristine snapshot as well (huginn-net-tls golden_tests: pcap path outside the repo).
cd /repo && cargo test --workspace --no-fail-fast --offline > /tmp/baseline_off.log 2>&1
echo "ok tests: $(grep -c '^test .* ok$' /tmp/baseline_off.log)"
grep -E '^test [A-Za-z0-9_:]+ \.\.\. FAILED' /tmp/baseline_off.log | grep -v test_golden_pcap_snapshots && { echo "UNEXPECTED FAILURES"; exit 1; }
grep -q "error\[" /tmp/baseline_off.log && { echo "BUILD ERROR"; exit 1; }
echo "baseline clean (only the always-failing tls golden_tests)"
