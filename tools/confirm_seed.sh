#!/bin/bash
# usage: confirm_seed.sh <ID> <worktree>   -- confirms an independently written breaking change and stores it under /verif/seeded/<ID>/
ID=$1; WT=$2; OUT=/verif/seeded/$ID
export CARGO_TARGET_DIR=$WT/target
cd $WT || exit 2
DEMO=$(git status --short | grep '^??' | grep -v 'seed/' | grep -v target | awk '{print $2}' | head -1)
PKG=$(echo $DEMO | cut -d/ -f1); TEST=$(basename $DEMO .rs)
echo "demo file: $DEMO (package $PKG test $TEST)"
# 1. with the change: suite (except demo + known failing golden) passes, demo fails
git apply --check -R seed/patch.diff || { echo "patch not applied in worktree"; exit 2; }
SUITE=$(cargo test --workspace --no-fail-fast --offline 2>&1 | grep -E '^test [A-Za-z0-9_:]+ \.\.\. FAILED|^error(\[|:)' | grep -v 'test_golden_pcap_snapshots' )
echo "suite failures with change (expected: only demo tests): $(echo "$SUITE" | grep -c FAILED)"
echo "$SUITE" | head -5
cargo test -p $PKG --test $TEST --offline 2>&1 | grep -E "^test result" | head -2 > /tmp/demo_with.txt; echo "demo WITH change: $(cat /tmp/demo_with.txt)"
# 2. without
git apply -R seed/patch.diff
cargo test -p $PKG --test $TEST --offline 2>&1 | grep -E "^test result" | head -2 > /tmp/demo_without.txt; echo "demo WITHOUT change: $(cat /tmp/demo_without.txt)"
git apply seed/patch.diff
mkdir -p $OUT; cp seed/patch.diff $OUT/patch.diff; cp $DEMO $OUT/demo.rs; cp seed/notes.md $OUT/agent_notes.md
echo "$DEMO" > $OUT/demo_path.txt
