#!/bin/bash
# usage: mk_rN.sh <round> <ID>  -> creates /tmp/wt/r<round>-<ID> with seed/PROPERTY.txt naming every change already seeded for the property
R=$1; ID=$2; DIR=/tmp/wt/r$R-$ID
mkdir -p /tmp/wt; cp -n /verif/tools/seeding/AGENT_BRIEF.md /tmp/wt/AGENT_BRIEF.md 2>/dev/null
git -C /repo worktree add --detach $DIR HEAD >/dev/null 2>&1 || exit 1
mkdir -p $DIR/seed
python3 - "$ID" "$DIR" <<'PY'
import json,sys,glob,os
pid,d=sys.argv[1],sys.argv[2]
for l in open('/verif/properties.jsonl'):
    p=json.loads(l)
    if p['id']==pid:
        prev=[]
        for m in sorted(glob.glob('/verif/seeded/*/meta.json')):
            j=json.load(open(m))
            if j.get('breaks_property')==pid: prev.append(j['change'])
        notes="\n".join(f'  - "{c}"' for c in prev)
        open(f'{d}/seed/PROPERTY.txt','w').write(
f"""PROPERTY: {p['title']}

STATEMENT: {p['statement']}

QUANTIFIED OVER: {p['quantifier']['text']}

RELEVANT FILES (starting points, not a limit): {', '.join(p['anchors']['files'])}

NOTE: other engineers have already seeded these changes for the same property:
{notes}
Produce a DIFFERENT change: another mechanism, another function (preferably another file) and a different
kind of triggering input / sequence than any of the above. Do not produce a variation of a change quoted above.
Prefer a clause of the STATEMENT that none of the changes above attacks.
""")
PY
echo $DIR
