#!/bin/bash
# usage: mk_r2.sh <ID>  -> creates /tmp/wt/r2-<ID> with seed/PROPERTY.txt
ID=$1; DIR=/tmp/wt/r2-$ID
git -C /repo worktree add --detach $DIR HEAD >/dev/null 2>&1 || exit 1
mkdir -p $DIR/seed
python3 - "$ID" "$DIR" <<'PY'
import json,sys
pid,d=sys.argv[1],sys.argv[2]
for l in open('/verif/properties.jsonl'):
    p=json.loads(l)
    if p['id']==pid:
        prev=json.load(open(f'/verif/seeded/{pid}/meta.json'))['change']
        open(f'{d}/seed/PROPERTY.txt','w').write(
f"""PROPERTY: {p['title']}

STATEMENT: {p['statement']}

QUANTIFIED OVER: {p['quantifier']['text']}

RELEVANT FILES (starting points, not a limit): {', '.join(p['anchors']['files'])}

NOTE: another engineer has already seeded this change for the same property:
  "{prev}"
Produce a DIFFERENT change: another mechanism, preferably another function or file, and a different
kind of triggering input / sequence. Do not produce a variation of the change quoted above.
""")
PY
echo $DIR
