#!/bin/bash
# usage: mk_neutral.sh <round-tag> <ID>  -> creates /tmp/wt/<tag>-<ID> with seed/PROPERTY.txt (property text only) for a false-alarm probe
R=$1; ID=$2; DIR=/tmp/wt/$R-$ID
mkdir -p /tmp/wt; cp /verif/tools/seeding/NEUTRAL_BRIEF.md /tmp/wt/NEUTRAL_BRIEF.md
git -C /repo worktree add --detach $DIR HEAD >/dev/null 2>&1 || exit 1
mkdir -p $DIR/seed
python3 - "$ID" "$DIR" <<'PY'
import json,sys
pid,d=sys.argv[1],sys.argv[2]
for l in open('/verif/properties.jsonl'):
    p=json.loads(l)
    if p['id']==pid:
        open(f'{d}/seed/PROPERTY.txt','w').write(
f"""PROPERTY: {p['title']}

STATEMENT: {p['statement']}

QUANTIFIED OVER: {p['quantifier']['text']}

RELEVANT FILES (starting points, not a limit): {', '.join(p['anchors']['files'])}
""")
PY
echo $DIR
