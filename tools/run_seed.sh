#!/bin/bash
# usage: run_seed.sh <seed-dir-name> <check ID> [tier]  -- applies seeded/<name>/patch.diff to /repo, runs the check, restores /repo
N=$1; ID=$2; TIER=${3:-quick}
git -C /repo apply /verif/seeded/$N/patch.diff || { echo "patch does not apply"; exit 2; }
START=$(date +%s)
/verif/bin/verif $ID $TIER 2>&1 | grep -E "violation in|tier=|VIOLATION|INCONCL|BUILD" | cut -c1-260 | head -8
echo "elapsed $(( $(date +%s) - START )) s"
git -C /repo checkout -- .
git -C /repo status --short | head -3
