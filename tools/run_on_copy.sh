#!/bin/bash
# usage: run_on_copy.sh <name> <patch.diff|-> <tier> <ID> [ID...]
# Exploratory aid (NOT what MANIFEST registers): runs checks against a scratch copy of /repo's HEAD with a patch applied,
# using a scratch copy of /verif's harness, so that several candidate changes can be tried in parallel without touching /repo.
# Everything lives under /tmp/cp/<name> and is removed at the end. Output: one line per check on stdout, logs in /tmp/cp-logs/<name>/.
NAME=$1; PATCH=$2; TIER=$3; shift 3
ROOT=/tmp/cp/$NAME; LOGS=/tmp/cp-logs/$NAME
rm -rf $ROOT; mkdir -p $ROOT $LOGS
git -C /repo worktree add --detach $ROOT/repo HEAD >/dev/null 2>&1 || { echo "worktree failed"; exit 2; }
if [ "$PATCH" != "-" ]; then git -C $ROOT/repo apply "$PATCH" || { echo "patch does not apply"; git -C /repo worktree remove --force $ROOT/repo; exit 2; }; fi
mkdir -p $ROOT/verif
rsync -a --exclude harness/target --exclude .git --exclude seeded --exclude 'harness/fuzz/target' /verif/ $ROOT/verif/
sed -i "s#\"/repo/#\"$ROOT/repo/#g" $ROOT/verif/harness/Cargo.toml
sed -i "s#pub const VERIF_ROOT: &str = \"/verif\"#pub const VERIF_ROOT: \&str = \"$ROOT/verif\"#" $ROOT/verif/harness/src/engine.rs
sed -i "s#\"/repo/#\"$ROOT/repo/#g" $ROOT/verif/harness/src/props/c06.rs $ROOT/verif/harness/src/props/c01.rs
export CARGO_NET_OFFLINE=true RUST_BACKTRACE=0 CARGO_TARGET_DIR=$ROOT/target
mkdir -p $ROOT/target; cp -r /verif/harness/target/release $ROOT/target/ 2>/dev/null; rm -rf $ROOT/target/scratch
( cd $ROOT/verif/harness && cargo build --release --quiet -j ${JOBS:-6} > $LOGS/build.log 2>&1 ) || { echo "BUILD-FAILED $NAME"; tail -20 $LOGS/build.log; git -C /repo worktree remove --force $ROOT/repo; rm -rf $ROOT; exit 2; }
for ID in "$@"; do
  S=$(date +%s)
  ( if [ "$TIER" != "thorough" ]; then ulimit -v ${VMEM:-24000000}; fi; cd $ROOT/verif/harness && $ROOT/target/release/check $ID --tier $TIER > $LOGS/$ID.log 2>&1 ); RC=$?
  echo "$NAME $ID exit=$RC $(( $(date +%s)-S ))s :: $(grep -E 'violation in|VIOLATION|INCONCL' $LOGS/$ID.log | head -3 | cut -c1-300 | tr '\n' ' ')"
done
git -C /repo worktree remove --force $ROOT/repo; rm -rf $ROOT
