#!/usr/bin/env python3
"""Regenerates /verif/MANIFEST.json from tools/checks.json (claimed checks) + properties.jsonl."""
import json, os
root = os.path.dirname(os.path.dirname(os.path.abspath(__file__)))
props = [json.loads(l) for l in open(os.path.join(root, 'properties.jsonl'))]
checks = json.load(open(os.path.join(root, 'tools', 'checks.json')))
m = {
  "version": 1,
  "setup_cmd": "cd /verif/harness && CARGO_NET_OFFLINE=true cargo build --release",
  "hooks": {
    "guard": "cargo feature `verif-hooks` (crates huginn-net, huginn-net-tcp, huginn-net-http, huginn-net-tls); default off",
    "enable": "the harness crate /verif/harness depends on /repo's crates by path with features=[\"verif-hooks\"]; every check command runs `cargo build --release` there first, which rebuilds /repo's crates from the current working tree",
    "baseline_off_cmd": "cd /repo && cargo test --workspace --no-fail-fast --offline",
    "source_commits": checks.get("hook_commits", []),
    "add_only": True
  },
  "engines": [
    {"name": "harness", "path": "/verif/harness", "serves_properties": [c["id"] for c in checks["claimed"]],
     "kind_free_text": "Rust crate: proptest 1.11 runners seeded from VERIF_SEED + exhaustive sub-domain loops (rayon) + reference models; shrunk failures become replay files under /verif/replays/found"},
  ],
  "checks": [],
  "not_applicable": [],
  "notes": "Technique family: property-based testing and fuzzing only. Exit 0 = held on everything explored, 1 = VIOLATION line, 2 = inconclusive (build failure, watchdog, generator health)."
}
claimed = {c["id"]: c for c in checks["claimed"]}
for p in props:
    pid = p["id"]
    if pid in claimed:
        c = claimed[pid]
        m["checks"].append({
          "property_id": pid,
          "quick_cmd": f"bin/verif {pid} quick",
          "thorough_cmd": f"bin/verif {pid} thorough",
          "evidence_file": f"/verif/evidence/{pid}.json",
          "replay_cmd_template": f"bin/verif {pid} quick --replay {{path}}",
          "engine": "harness",
          "level_claimed": {"category": "exploration", "text": c["level_text"], "design_ref": f"DESIGN.md §6 {pid}"},
          "level_note": c["level_note"],
          "technique": c["technique"],
        })
    else:
        m["not_applicable"].append({"property_id": pid, "reason": checks.get("unclaimed", {}).get(pid, "check not built yet in this session (see DESIGN.md §6 for the planned generator/oracle)")})
json.dump(m, open(os.path.join(root, 'MANIFEST.json'), 'w'), indent=1)
print("claimed", len(m["checks"]), "unclaimed", len(m["not_applicable"]))
